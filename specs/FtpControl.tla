----------------------------- MODULE FtpControl -----------------------------
(***************************************************************************)
(* Implementation-shaped model of the FTP control conversation of          *)
(*   wpull/protocol/ftp/client.py   Session.start | start_listing |        *)
(*                                  download, _prepare_fetch, _log_in      *)
(*   wpull/protocol/ftp/command.py  Commander                              *)
(*   wpull/protocol/ftp/stream.py   ControlStream.write_command/read_reply *)
(*   wpull/protocol/ftp/request.py  Command.to_bytes, Reply.parse          *)
(*   wpull/protocol/ftp/util.py     parse_address                          *)
(* One client action = one await-free block: a reply is read line by line  *)
(* (Connection.readline over whatever pieces the network delivered); the   *)
(* block that completes a reply also writes the next command.              *)
(* The server is the environment: it chooses every reply (bytes), how the  *)
(* control stream is cut into pieces, what the data connection carries and *)
(* when it is closed relative to the closing reply.                        *)
(*                                                                         *)
(* RejectCtl = FALSE is the code as found (CR / LF / NUL in an argument    *)
(* are written into the command line: finding 18); RejectCtl = TRUE is the *)
(* repaired code (Command.to_bytes refuses them with a ProtocolError).     *)
(***************************************************************************)
EXTENDS FtpControlProps

CONSTANTS RejectCtl,   \* see above
          ArgLen,      \* hostile arguments: all symbol strings up to this length, at one position at a time
          Shapes,      \* reply shapes the server may use (subset of AllShapes)
          MaxOdd,      \* how many replies of one run may have a shape other than "single"
          CutMode,     \* "whole": a piece is everything sent so far; "edge": one byte or everything; "all": every length
          MaxSess,     \* number of sessions on one client (login cache, connection reuse)
          MaxData,     \* bytes on the data connection
          Drops,       \* TRUE: the server may drop the control connection instead of answering
          Modes        \* subset of {"file", "rest", "listing"}: plain RETR, RETR after REST, directory listing

AllShapes == {"single", "multi", "multi_sp", "multi_dig", "lf", "multi_lf", "cr_in", "cr_code", "other"}
Alphabet  == {97, CR, LF, NUL, SP, 37}     \* plain 'a', CR, LF, NUL, space, percent sign (after percent-decoding)

VARIABLES
  mode, restart, user, pass, path,     \* the request: "file"|"listing", REST?, decoded user / password / path bytes
  cpc,        \* client program counter
  bcmd,       \* command that starts the transfer: "RETR" | "MLSD" | "LIST"
  cur,        \* Reply being assembled
  consumed,   \* bytes consumed for it so far
  logged,     \* login table entry of the control connection: <<>> or <<user, password>>
  sess,       \* session number
  copen,      \* control connection open
  wire,       \* control bytes sent by the server, not yet delivered
  inbuf,      \* delivered, not yet consumed by readline
  cclosed,    \* server closed the control connection
  pend,       \* commands (or the greeting) the server has not answered yet
  daddr,      \* address parsed from the last 227 reply: 0: none, 1: where the server listens, 2: one that refuses
  dq,         \* data connection: piece sizes in flight
  dclosed,    \* server closed the data connection
  dsent, dgot,
  xfer,       \* the server has started the transfer (sent 150/125)
  finalSent,  \* ... and sent its closing reply
  codes,      \* codes of the replies assembled so far
  outcome,    \* "none" | "ok" | "error" | "crash"
  odd         \* budget used

scen  == <<mode, restart, user, pass, path>>
cvars == <<cpc, bcmd, cur, consumed, logged, sess>>
nvars == <<copen, wire, inbuf, cclosed, pend>>
drest == <<dq, dclosed, dsent, dgot, xfer, finalSent>>
dvars == <<daddr, drest>>
ovars == <<cmdBytes, auto, replyOK, transferComplete, dataEOFSeen, finalReplySeen, finalCode, bodyOK, codes, outcome>>
vars  == <<scen, cvars, nvars, dvars, ovars, odd>>

-----------------------------------------------------------------------------
\* Reply.parse as written: bytes.splitlines(False), then per sub-line a regular expression match:
\* three digits or nothing, then an optional space or dash, then the rest of the sub-line

RECURSIVE Sub(_, _, _)
Sub(s, start, i) ==
  IF i > Len(s) THEN (IF start <= Len(s) THEN <<SubSeq(s, start, Len(s))>> ELSE <<>>)
  ELSE IF s[i] = LF THEN <<SubSeq(s, start, i - 1)>> \o Sub(s, i + 1, i + 1)
  ELSE IF s[i] = CR
       THEN IF i < Len(s) /\ s[i + 1] = LF
            THEN <<SubSeq(s, start, i - 1)>> \o Sub(s, i + 2, i + 2)
            ELSE <<SubSeq(s, start, i - 1)>> \o Sub(s, i + 1, i + 1)
  ELSE Sub(s, start, i + 1)
SplitLines(s) == Sub(s, 1, 1)

P0 == [code |-> 0, text |-> <<>>, has |-> FALSE, crash |-> FALSE, open |-> 0]

ParseSub(st, sub) ==
  LET d3 == Len(sub) >= 3 /\ IsDigit(sub[1]) /\ IsDigit(sub[2]) /\ IsDigit(sub[3])
      n1 == IF d3 THEN 3 ELSE 0
      g2 == IF Len(sub) > n1 /\ sub[n1 + 1] \in {SP, DASH} THEN sub[n1 + 1] ELSE 0
      g3 == SubSeq(sub, n1 + (IF g2 # 0 THEN 1 ELSE 0) + 1, Len(sub))
      \* the first line opens a multi-line reply: only a line with the same code ends it (RFC 959 4.2)
      op  == IF ~st.has /\ d3 /\ g2 = DASH THEN Code3(sub) ELSE st.open
      fin == d3 /\ g2 = SP /\ (op = 0 \/ Code3(sub) = op)
      \* an intermediary line that merely begins with a number and a space is kept whole
      tx  == IF d3 /\ g2 = SP /\ ~fin THEN sub ELSE g3
  IN [code  |-> IF fin /\ st.code = 0 THEN Code3(sub) ELSE st.code,
      crash |-> st.crash \/ (fin /\ st.code # 0),          \* 'Reply has more than one final line' (was: assert)
      has   |-> TRUE,
      open  |-> op,
      text  |-> IF st.has THEN st.text \o CRLF \o tx ELSE tx]

RECURSIVE ParseSubs(_, _, _)
ParseSubs(st, subs, i) == IF i > Len(subs) \/ st.crash THEN st ELSE ParseSubs(ParseSub(st, subs[i]), subs, i + 1)
ParseLine(st, line) == ParseSubs(st, SplitLines(line), 1)

\* the reference: the same grammar applied to the whole byte string at once
RECURSIVE ParseLines(_, _, _)
ParseLines(st, ls, i) == IF i > Len(ls) \/ st.crash \/ st.code # 0 THEN st ELSE ParseLines(ParseLine(st, ls[i]), ls, i + 1)
RefAssemble(bytes) == ParseLines(P0, Lines(bytes), 1)

-----------------------------------------------------------------------------
(* Requests                                                                 *)

Anonymous == <<97, 110, 111, 110, 121, 109, 111, 117, 115>>     \* "anonymous"
DefPass   == <<45, 119, 112, 117, 108, 108, 64>>                \* "-wpull@"
UserB == IF user = <<>> THEN Anonymous ELSE user
PassB == IF pass = <<>> THEN DefPass ELSE pass
PathB == <<47>> \o path

RECURSIVE Strings(_)
Strings(n) == IF n = 0 THEN {<<>>} ELSE LET S == Strings(n - 1) IN S \cup {Append(s, b) : s \in {t \in S : Len(t) = n - 1}, b \in Alphabet}
Plain == <<97>>
Requests ==
  {[user |-> u, pass |-> <<>>, path |-> Plain] : u \in Strings(ArgLen)} \cup
  {[user |-> <<117>>, pass |-> p, path |-> Plain] : p \in Strings(ArgLen)} \cup
  {[user |-> <<>>, pass |-> <<>>, path |-> q] : q \in Strings(ArgLen)}

BadArg(a) == Has(a, CR) \/ Has(a, LF) \/ Has(a, NUL)
Cmd(name, arg) == name \o <<SP>> \o arg \o CRLF

-----------------------------------------------------------------------------
(* The server's menu of replies                                             *)

OKt == <<111, 107>>                                                 \* "ok"
A1  == <<40, 49, 48, 44, 48, 44, 48, 44, 49, 44, 52, 44, 49, 41>>    \* "(10,0,0,1,4,1)": the server listens there
A2  == <<40, 49, 48, 44, 48, 44, 48, 44, 49, 44, 52, 44, 50, 41>>    \* "(10,0,0,1,4,2)": nobody listens there

PasvAddr(t) == IF Contains(t, A1) THEN 1 ELSE IF Contains(t, A2) THEN 2 ELSE 0

ShapeBytes(c, t, sh) ==
  LET D == Digits(c) IN
  CASE sh = "single"    -> D \o <<SP>> \o t \o CRLF
    [] sh = "multi"     -> D \o <<DASH, 120>> \o CRLF \o D \o <<SP>> \o t \o CRLF
    [] sh = "multi_sp"  -> D \o <<DASH, 120>> \o CRLF \o <<SP, 121>> \o CRLF \o D \o <<SP>> \o t \o CRLF
    [] sh = "multi_dig" -> D \o <<DASH, 120>> \o CRLF \o D \o <<57>> \o CRLF \o D \o <<DASH, 122>> \o CRLF \o D \o <<SP>> \o t \o CRLF
    [] sh = "lf"        -> D \o <<SP>> \o t \o <<LF>>
    [] sh = "multi_lf"  -> D \o <<DASH, 120>> \o <<LF>> \o D \o <<SP>> \o t \o <<LF>>
    [] sh = "cr_in"     -> D \o <<SP, 113, CR>> \o t \o CRLF
    \* a bare CR followed by something that looks like a final line: the assertion in Reply.parse fails
    [] sh = "cr_code"   -> D \o <<SP, 113, CR>> \o D \o <<SP>> \o t \o CRLF
    [] sh = "other"     -> D \o <<DASH, 120>> \o CRLF \o <<50, 57, 57, SP, 119>> \o CRLF \o D \o <<SP>> \o t \o CRLF

Menu(pc, b) ==
  CASE pc = "r_welcome" -> {<<220, OKt>>, <<421, OKt>>}
    [] pc = "r_user"    -> {<<230, OKt>>, <<331, OKt>>, <<530, OKt>>}
    [] pc = "r_pass"    -> {<<230, OKt>>, <<530, OKt>>}
    [] pc = "r_size"    -> {<<213, <<55>>>>, <<550, OKt>>}
    [] pc = "r_rest"    -> {<<350, OKt>>, <<502, OKt>>}
    [] pc = "r_type"    -> {<<200, OKt>>, <<500, OKt>>}
    [] pc = "r_pasv"    -> {<<227, A1>>, <<227, A2>>, <<227, OKt>>, <<500, OKt>>}
    [] pc = "r_begin"   -> {<<150, OKt>>, <<125, OKt>>, <<502, OKt>>, <<550, OKt>>}
    [] OTHER            -> {}
FinalMenu == {<<226, OKt>>, <<250, OKt>>, <<426, OKt>>}

ReadingPcs == {"r_welcome", "r_user", "r_pass", "r_size", "r_rest", "r_type", "r_pasv", "r_begin", "r_final"}

-----------------------------------------------------------------------------
InitWith(m, r, u, p, q) ==
  /\ mode = m /\ restart = r /\ user = u /\ pass = p /\ path = q
  /\ cpc = "start" /\ bcmd = "-" /\ cur = P0 /\ consumed = <<>> /\ logged = <<>> /\ sess = 1
  /\ copen = FALSE /\ wire = <<>> /\ inbuf = <<>> /\ cclosed = FALSE /\ pend = 0
  /\ daddr = 0 /\ dq = <<>> /\ dclosed = FALSE /\ dsent = 0 /\ dgot = 0 /\ xfer = FALSE /\ finalSent = FALSE
  /\ cmdBytes = <<>> /\ auto = Auto0 /\ replyOK = TRUE /\ transferComplete = FALSE /\ dataEOFSeen = FALSE
  /\ finalReplySeen = FALSE /\ finalCode = 0 /\ bodyOK = TRUE /\ codes = <<>> /\ outcome = "none" /\ odd = 0

Init == \E m \in Modes, rq \in Requests :
          InitWith(IF m = "listing" THEN "listing" ELSE "file", m = "rest", rq.user, rq.pass, rq.path)

-----------------------------------------------------------------------------
(* Where the client goes next: [pc, issue = <<>> | <<name, argument>>, logged, b]                       *)

Tgt(pc, issue, lg, b) == [pc |-> pc, issue |-> issue, logged |-> lg, b |-> b, addr |-> daddr]
Fail == Tgt("error", <<>>, <<>>, bcmd)
AfterLogin(lg) == IF mode = "file" THEN Tgt("r_size", <<nSIZE, PathB>>, lg, bcmd)
                                   ELSE Tgt("r_type", <<nTYPE, <<73>>>>, lg, bcmd)
\* Session._log_in: the cached login of this connection is reused when it is the same pair
StartLogin == IF logged = <<UserB, PassB>> THEN AfterLogin(logged) ELSE Tgt("r_user", <<nUSER, UserB>>, logged, bcmd)
Begin == IF mode = "file" THEN Tgt("r_begin", <<nRETR, PathB>>, logged, "RETR")
                          ELSE Tgt("r_begin", <<nMLSD, PathB>>, logged, "MLSD")

\* the reply (code c, text t) has been assembled while waiting at cpc
Go(c, t) ==
  CASE cpc = "r_welcome" -> IF c = 220 THEN StartLogin ELSE Fail
    [] cpc = "r_user"    -> IF c = 230 THEN AfterLogin(<<UserB, PassB>>)
                            ELSE IF c = 331 THEN Tgt("r_pass", <<nPASS, PassB>>, logged, bcmd) ELSE Fail
    [] cpc = "r_pass"    -> IF c = 230 THEN AfterLogin(<<UserB, PassB>>) ELSE Fail
    \* Commander.size: any failure is swallowed by Session._fetch_size
    [] cpc = "r_size"    -> IF restart THEN Tgt("r_rest", <<nREST, <<53>>>>, logged, bcmd)
                                       ELSE Tgt("r_type", <<nTYPE, <<73>>>>, logged, bcmd)
    [] cpc = "r_rest"    -> Tgt("r_type", <<nTYPE, <<73>>>>, logged, bcmd)
    [] cpc = "r_type"    -> IF c = 200 THEN Tgt("r_pasv", <<nPASV, <<>>>>, logged, bcmd) ELSE Fail
    \* Commander.passive_mode: util.parse_address(reply.text)
    [] cpc = "r_pasv"    -> IF c = 227 /\ PasvAddr(t) # 0
                            THEN [Tgt("dconnect", <<>>, logged, bcmd) EXCEPT !.addr = PasvAddr(t)] ELSE Fail
    [] cpc = "r_begin"   -> IF c \in {150, 125} THEN Tgt("data", <<>>, logged, bcmd)
                            ELSE IF bcmd = "MLSD" /\ c \in {500, 502} THEN Tgt("r_begin", <<nLIST, PathB>>, logged, "LIST")
                            ELSE Fail
    [] cpc = "r_final"   -> IF c = 226 THEN Tgt("done", <<>>, logged, bcmd) ELSE Fail

\* take the step: write the command (ControlStream.write_command) unless Command.to_bytes refuses it
Apply(g) ==
  LET rejected == g.issue # <<>> /\ RejectCtl /\ BadArg(g.issue[2])
      npc      == IF rejected THEN "error" ELSE g.pc
  IN /\ cpc' = npc /\ bcmd' = g.b /\ daddr' = g.addr
     /\ logged' = IF npc = "error" THEN <<>> ELSE g.logged          \* Session.abort pops the login table
     /\ IF g.issue # <<>> /\ ~rejected
        THEN LET bytes == Cmd(g.issue[1], g.issue[2]) IN
             cmdBytes' = Append(cmdBytes, bytes) /\ pend' = pend + 1 /\ auto' = AutoFold(auto, bytes)
        ELSE UNCHANGED <<cmdBytes, pend, auto>>
     /\ outcome' = IF npc = "error" THEN "error" ELSE IF npc = "done" THEN "ok" ELSE outcome
     /\ copen' = IF npc = "error" THEN FALSE ELSE copen             \* Session.abort closes the connections
     /\ transferComplete' = (transferComplete \/ npc = "done")
     /\ bodyOK' = IF npc = "done" THEN dgot = dsent ELSE bodyOK

-----------------------------------------------------------------------------
(* Client                                                                   *)

\* _prepare_fetch: take the connection from the pool; connect if it is closed, else go on with the login
Connect ==
  /\ cpc = "start"
  /\ IF copen
     THEN /\ Apply(StartLogin)
          /\ UNCHANGED <<wire, inbuf, cclosed>>
     ELSE /\ copen' = TRUE /\ pend' = 1 /\ cpc' = "r_welcome" /\ logged' = <<>>
          /\ wire' = <<>> /\ inbuf' = <<>> /\ cclosed' = FALSE
          /\ auto' = <<"start", FALSE, auto[3]>>
          /\ UNCHANGED <<bcmd, daddr, cmdBytes, outcome, transferComplete, bodyOK>>
  /\ UNCHANGED <<scen, cur, consumed, sess, drest, replyOK, dataEOFSeen, finalReplySeen, finalCode, codes, odd>>

\* the network hands over the next piece (fakenet: only when the reader would block)
Deliver(n) ==
  /\ cpc \in ReadingPcs /\ ~Has(inbuf, LF)
  /\ n \in 1..Len(wire) /\ (CutMode = "all" \/ n = Len(wire) \/ (CutMode = "edge" /\ n = 1))
  /\ inbuf' = inbuf \o SubSeq(wire, 1, n) /\ wire' = SubSeq(wire, n + 1, Len(wire))
  /\ UNCHANGED <<scen, cvars, copen, cclosed, pend, dvars, ovars, odd>>

\* ControlStream.read_reply: one readline(); Reply.parse; the reply is complete once a code is set
ReadLine ==
  /\ cpc \in ReadingPcs /\ Has(inbuf, LF)
  /\ LET line == Lines(inbuf)[1]
         st   == ParseLine(cur, line)
         cons == consumed \o line
     IN /\ inbuf' = SubSeq(inbuf, Len(line) + 1, Len(inbuf))
        /\ IF st.crash
           \* a second final line inside one reply: ProtocolError since the repair of the assertion (C09)
           THEN /\ cpc' = "error" /\ outcome' = "error" /\ copen' = FALSE /\ logged' = <<>>
                /\ cur' = P0 /\ consumed' = <<>>
                /\ UNCHANGED <<bcmd, daddr, pend, cmdBytes, auto, replyOK, transferComplete, finalReplySeen, finalCode, bodyOK, codes>>
           ELSE IF st.code = 0
           THEN /\ cur' = st /\ consumed' = cons
                /\ UNCHANGED <<cpc, bcmd, daddr, logged, copen, pend, cmdBytes, auto, replyOK, transferComplete, finalReplySeen,
                               finalCode, bodyOK, codes, outcome>>
           ELSE /\ cur' = P0 /\ consumed' = <<>>
                /\ replyOK' = (replyOK /\ RefAssemble(cons) = st)
                /\ codes' = Append(codes, st.code)
                /\ finalReplySeen' = (finalReplySeen \/ cpc = "r_final")
                /\ finalCode' = IF cpc = "r_final" THEN st.code ELSE finalCode
                /\ Apply(Go(st.code, st.text))
  /\ UNCHANGED <<scen, sess, wire, cclosed, drest, dataEOFSeen, odd>>

\* readline() returns a line without LF at end of stream: NetworkError('Connection closed.')
ReadEOF ==
  /\ cpc \in ReadingPcs /\ ~Has(inbuf, LF) /\ wire = <<>> /\ cclosed
  /\ Apply(Fail)
  /\ cur' = P0 /\ consumed' = <<>> /\ inbuf' = <<>>
  /\ UNCHANGED <<scen, sess, wire, cclosed, drest, replyOK, dataEOFSeen, finalReplySeen, finalCode, codes, odd>>

\* Commander.setup_data_stream: connect to the address of the 227 reply, then begin the transfer
Last(s) == s[Len(s)]
DataConnect ==
  /\ cpc = "dconnect"
  /\ IF daddr = 1 THEN Apply(Begin) /\ dclosed' = FALSE /\ dq' = <<>>
                  ELSE Apply(Fail) /\ UNCHANGED <<dclosed, dq>>
  /\ UNCHANGED <<scen, cur, consumed, sess, wire, inbuf, cclosed, dsent, dgot, xfer, finalSent,
                 replyOK, dataEOFSeen, finalReplySeen, finalCode, codes, odd>>

\* DataStream.read_file: read(4096) returns a piece ...
ReadData ==
  /\ cpc = "data" /\ dq # <<>>
  /\ dgot' = dgot + Head(dq) /\ dq' = Tail(dq)
  /\ UNCHANGED <<scen, cvars, nvars, daddr, dclosed, dsent, xfer, finalSent, ovars, odd>>

\* ... or b'' at the end of the data connection; then the closing reply is awaited
ReadDataEOF ==
  /\ cpc = "data" /\ dq = <<>> /\ dclosed
  /\ cpc' = "r_final" /\ dataEOFSeen' = TRUE
  /\ UNCHANGED <<scen, bcmd, cur, consumed, logged, sess, nvars, dvars, odd>>
  /\ UNCHANGED <<cmdBytes, auto, replyOK, transferComplete, finalReplySeen, finalCode, bodyOK, codes, outcome>>

\* the next session on the same client: the control connection comes back from the pool
NextSession(u, m) ==
  /\ cpc = "done" /\ sess < MaxSess
  /\ sess' = sess + 1 /\ cpc' = "start" /\ bcmd' = "-"
  /\ user' = u /\ mode' = m /\ restart' = FALSE
  /\ daddr' = 0 /\ dq' = <<>> /\ dclosed' = FALSE /\ dsent' = 0 /\ dgot' = 0 /\ xfer' = FALSE /\ finalSent' = FALSE
  /\ transferComplete' = FALSE /\ dataEOFSeen' = FALSE /\ finalReplySeen' = FALSE /\ finalCode' = 0 /\ bodyOK' = TRUE
  /\ outcome' = "none" /\ auto' = <<"start", auto[2], auto[3]>>
  /\ UNCHANGED <<pass, path, cur, consumed, logged, nvars, cmdBytes, replyOK, codes, odd>>

-----------------------------------------------------------------------------
(* Server (environment)                                                     *)

\* answer the pending command with the bytes bs
Send(bs, isBegin) ==
  /\ pend > 0 /\ ~cclosed
  /\ wire' = wire \o bs /\ pend' = pend - 1
  /\ xfer' = (xfer \/ isBegin)
  /\ UNCHANGED <<scen, cvars, copen, inbuf, cclosed, daddr, dq, dclosed, dsent, dgot, finalSent, ovars>>

ServerReply ==
  \E m \in Menu(cpc, bcmd), sh \in Shapes :
    /\ (sh # "single" => odd < MaxOdd) /\ odd' = IF sh = "single" THEN odd ELSE odd + 1
    /\ Send(ShapeBytes(m[1], m[2], sh), cpc = "r_begin" /\ m[1] \in {150, 125} /\ sh # "other")

\* the closing reply of the transfer: any time after the 150, before or after the data connection is closed
SendFinal(bs) ==
  /\ xfer /\ ~finalSent /\ ~cclosed
  /\ wire' = wire \o bs /\ finalSent' = TRUE
  /\ UNCHANGED <<scen, cvars, copen, inbuf, cclosed, pend, daddr, dq, dclosed, dsent, dgot, xfer, ovars>>

ServerFinal ==
  \E m \in FinalMenu, sh \in Shapes :
    /\ (sh # "single" => odd < MaxOdd) /\ odd' = IF sh = "single" THEN odd ELSE odd + 1
    /\ SendFinal(ShapeBytes(m[1], m[2], sh))

\* the server drops the control connection, possibly in the middle of a reply
DropWith(bs) ==
  /\ pend > 0 /\ ~cclosed
  /\ wire' = wire \o bs /\ cclosed' = TRUE /\ pend' = 0
  /\ UNCHANGED <<scen, cvars, copen, inbuf, dvars, ovars, odd>>
\* ... or in the middle of the closing reply of a transfer
DropFinal(bs) ==
  /\ xfer /\ ~finalSent /\ ~cclosed
  /\ wire' = wire \o bs /\ finalSent' = TRUE /\ cclosed' = TRUE
  /\ UNCHANGED <<scen, cvars, copen, inbuf, pend, daddr, dq, dclosed, dsent, dgot, xfer, ovars, odd>>
\* a reply torn k bytes before its end (1: LF missing, 2: CR LF missing, 3: inside the text)
Torn(bs, k) == SubSeq(bs, 1, Len(bs) - k)
ServerDrop ==
  /\ Drops
  /\ \/ \E bs \in {<<>>, <<50, 50>>, <<50, 50, 48, DASH, 120, CR, LF>>} : DropWith(bs)
     \/ \E m \in Menu(cpc, bcmd), k \in 1..3 : DropWith(Torn(ShapeBytes(m[1], m[2], "single"), k))
     \/ \E m \in FinalMenu, k \in 1..3 : DropFinal(Torn(ShapeBytes(m[1], m[2], "single"), k))

DataSend(n) ==
  /\ xfer /\ ~dclosed /\ cpc = "data" /\ n \in 1..(MaxData - dsent)
  /\ dq' = Append(dq, n) /\ dsent' = dsent + n
  /\ UNCHANGED <<scen, cvars, nvars, daddr, dclosed, dgot, xfer, finalSent, ovars, odd>>

DataClose ==
  /\ xfer /\ ~dclosed /\ cpc = "data"
  /\ dclosed' = TRUE
  /\ UNCHANGED <<scen, cvars, nvars, daddr, dq, dsent, dgot, xfer, finalSent, ovars, odd>>

-----------------------------------------------------------------------------
ClientNext == Connect \/ ReadLine \/ ReadEOF \/ DataConnect \/ ReadData \/ ReadDataEOF
DeliverAny  == \E n \in 1..Len(wire) : Deliver(n)
NextSessionAny == \E u \in {user, <<98>>}, m \in {"file", "listing"} : NextSession(u, m)
DataSendAny == \E n \in 1..MaxData : DataSend(n)
EnvNext    == DeliverAny \/ ServerReply \/ ServerFinal \/ ServerDrop \/ DataSendAny \/ DataClose \/ NextSessionAny
Next == ClientNext \/ EnvNext
Spec == Init /\ [][Next]_vars

Terminal == cpc \in {"done", "error", "crash"}

TypeOK ==
  /\ cpc \in ReadingPcs \cup {"start", "dconnect", "data", "done", "error", "crash"}
  /\ pend \in 0..2 /\ dgot <= dsent /\ dsent <= MaxData
  /\ outcome \in {"none", "ok", "error", "crash"}

\* the model's own sanity: "ok" only through the whole automaton
OkMeansDone == (outcome = "ok") <=> (cpc = "done")
=============================================================================
