---------------------------- MODULE URLTableMon ----------------------------
(***************************************************************************)
(* Observation monitor for C14.  Folds the events recorded from the real   *)
(* SQLiteURLTable / URLTableHookWrapper into the observation variables of  *)
(* URLTableProps - the table projection is taken from the recording        *)
(* (rows changed / removed by each call, read back from the database), the *)
(* call and its result likewise; nothing is computed by a model - and      *)
(* evaluates every property clause after every call.  Decides VIOLATION.   *)
(***************************************************************************)
EXTENDS URLTableProps, Json, IOUtils, TLCExt, SequencesExt

Batch == JsonDeserialize(IOEnv.TRACE_FILE)
NT    == Len(Batch)

VARIABLES tid, l
mvars == <<ptab, tab, ev, phs, hs, host, gvis, gfiled, tid, l>>

Ev  == Batch[tid].ev
Cur == Ev[l]

\* rows changed or added by the call (d), URLs that disappeared (del)
ApplyDelta(t, d, del) ==
  LET changed == {d[i].u : i \in DOMAIN d} IN
  [u \in (DOMAIN t \ Range(del)) \cup changed |->
      IF u \in changed THEN d[CHOOSE i \in DOMAIN d : d[i].u = u] ELSE t[u]]

MInit ==
  /\ tid \in 1..NT /\ l = 1
  /\ ptab = <<>> /\ tab = <<>> /\ ev = InitEv /\ phs = {} /\ hs = {}
  /\ host = Batch[tid].host /\ gvis = {} /\ gfiled = {}

MNext ==
  /\ l <= Len(Ev) /\ l' = l + 1 /\ UNCHANGED <<tid, host>>
  /\ LET e == Cur IN
     /\ ev' = e
     /\ ptab' = tab
     /\ tab' = ApplyDelta(tab, e.d, e.del)
     /\ phs' = hs
     /\ hs' = Range(e.hn)
     /\ gvis' = GvisFold(gvis, e)
     /\ gfiled' = GfiledFold(gfiled, e, DOMAIN tab)

MSpec == MInit /\ [][MNext]_mvars

\* a URL is stored once: the read-back never shows two rows for one URL string
StoredOnce == (ev.op # "init") => ev.dup = 0

\* ---- per-trace verdict registers: i -> furthest line reached, NT+i -> every <<line, clause>> violated
\*      (the monitor never diverges from the recording, so it keeps judging after a violation: a known
\*      defect early in a history does not hide anything behind it)
ASSUME \A i \in 1..NT : TLCSet(i, 0) /\ TLCSet(NT + i, <<>>)

BadSet == {c \in 1..23 : ClauseBad(c) # 0} \cup (IF StoredOnce THEN {} ELSE {24})

Record ==
  /\ IF TLCGet(tid) < l THEN TLCSet(tid, l) ELSE TRUE
  /\ IF BadSet # {} /\ Len(TLCGet(NT + tid)) < 60
     THEN TLCSet(NT + tid, TLCGet(NT + tid) \o SetToSeq({<<l, c>> : c \in BadSet}))
     ELSE TRUE

\* flat integers per trace: furthest line, number of pairs, then the pairs
Post == PrintT(<<"VERDICTS_BEGIN",
                 [i \in 1..NT |-> <<TLCGet(i) - 1, Len(TLCGet(NT + i))>> \o
                                   FlattenSeq(TLCGet(NT + i))],
                 "VERDICTS_END">>)
=============================================================================
