--------------------------- MODULE FtpScopeTrace ---------------------------
(***************************************************************************)
(* Strict trace validation for the FTP part of C02: is a recorded crawl of *)
(* the real wpull a behaviour of the model (PART B of FtpScope.tla)?       *)
(* A rejection is MODEL DRIFT, never an alarm.                             *)
(*                                                                         *)
(* Events (drivers/scope_ftp.py strict_trace):                             *)
(*   begin  u lvl lt        FTPProcessor.process starts on the URL record  *)
(*   cmd    c p u           the server received LIST / RETR for path p     *)
(*                          while the worker was visiting u (SIZE and the  *)
(*                          refused MLSD probe are not part of the model;  *)
(*                          an answered MLSD counts as LIST)               *)
(*   fin    u st kids       the item was checked in with status st and the *)
(*                          table accepted these NEW child records         *)
(*                          [u, lvl, lt], in this order                    *)
(* Silent model steps: the listing cache answers / is filled.              *)
(***************************************************************************)
EXTENDS FtpScope, IOUtils, TLCExt

Batch == JsonDeserialize(IOEnv.TRACE_FILE)
NT    == Len(Batch)

VARIABLES tid, l
tvars == <<vars, tid, l>>

Ev  == Batch[tid].ev
Cur == Ev[l]
Is(name) == l <= Len(Ev) /\ Cur.e = name
Step   == l' = l + 1 /\ UNCHANGED tid
Silent == UNCHANGED <<tid, l>>

TInit == /\ tid \in 1..NT /\ l = 1
         /\ InitWith(Batch[tid].hdr)

Holder(u) == {w \in Workers : wk[w].pc # "idle" /\ tbl[wk[w].i].u = u}

TBegin == /\ Is("begin") /\ Step
          /\ \E w \in Workers, i \in 1..Len(tbl) :
               /\ tbl[i].u = Cur.u /\ tbl[i].lvl = Cur.lvl /\ tbl[i].lt = Cur.lt
               /\ Begin(w, i)

TCmd == /\ Is("cmd") /\ Step
        /\ \E w \in Holder(Cur.u) :
             \/ /\ wk[w].pc = "parent" /\ Cur.c = "LIST" /\ Cur.p = Par(wk[w].rp)
                /\ ParentFetch(w)
             \/ /\ wk[w].pc = "fetch" /\ Cur.c = (IF wk[w].isfile THEN "RETR" ELSE "LIST") /\ Cur.p = wk[w].rp
                /\ FetchCmd(w)

TFin == /\ Is("fin") /\ Step
        /\ \E w \in Holder(Cur.u) :
             /\ wk[w].pc = "fin" /\ wk[w].st = Cur.st
             /\ Finish(w)
             /\ LET n == Len(tbl') - Len(tbl) IN
                /\ Len(Cur.kids) = n
                /\ \A j \in 1..n : LET r == tbl'[Len(tbl) + j] IN
                                   r.u = Cur.kids[j].u /\ r.lvl = Cur.kids[j].lvl /\ r.lt = Cur.kids[j].lt

TSilent == /\ Silent
           /\ \E w \in Workers : ParentCached(w) \/ ParentDone(w)

TNext == TBegin \/ TCmd \/ TFin \/ TSilent
TSpec == TInit /\ [][TNext]_tvars

ASSUME \A i \in 1..(2 * NT) : TLCSet(i, 0)
Record == IF TLCGet(tid) < l THEN TLCSet(tid, l) ELSE TRUE
Post == PrintT(<<"VERDICTS_BEGIN", [i \in 1..NT |-> <<TLCGet(i) - 1, 0, 0>>], "VERDICTS_END">>)
=============================================================================
