---------------------------- MODULE DecoderTrace ----------------------------
(***************************************************************************)
(* Strict trace validation for C19: is the recorded run of the real        *)
(* decoder on one body, cut into the recorded pieces, a behaviour of       *)
(* Decoder.tla instantiated with that body's measured profile?             *)
(* Checked per call: error / no error, the inflater the decoder has        *)
(* settled on, and the number of bytes handed to the caller.               *)
(* A rejection is MODEL-DRIFT, never an alarm.                             *)
(***************************************************************************)
EXTENDS Decoder, Json, IOUtils, TLCExt

Batch == JsonDeserialize(IOEnv.TRACE_FILE)
NT    == Len(Batch)

VARIABLES tid, l
tvars == <<vars, tid, l>>

Ev  == Batch[tid].ev
Cur == Ev[l]
Is(name) == l <= Len(Ev) /\ Cur.e = name
Step == l' = l + 1 /\ UNCHANGED tid

TInit == /\ tid \in 1..NT /\ l = 1
         /\ InitWith(Batch[tid].prof, Batch[tid].dec, Batch[tid].path)

Delivered == out'[2] - (IF out'[1] = out[1] THEN out[2] ELSE 0)

TPiece == /\ Is("piece") /\ Step
          /\ Feed(Cur.n)
          /\ err' = Cur.err /\ mode' = Cur.mode
          /\ Cur.outn = (IF phase' = "failed" THEN 0 ELSE Delivered)

TFlush == /\ Is("flush") /\ Step
          /\ Flush
          /\ err' = Cur.err /\ Cur.outn = 0

\* the call as a whole ended as the model says (a normal return only after the flush)
TEnd == /\ Is("end") /\ Step
        /\ Ended /\ Cur.err = err
        /\ UNCHANGED vars

TNext == TPiece \/ TFlush \/ TEnd
TSpec == TInit /\ [][TNext]_tvars

ASSUME \A i \in 1..(2 * NT) : TLCSet(i, 0)

\* the strict spec reports model-level property clauses too (informational: the verdict comes from DecoderMon)
BadClause == IF ~NoSpuriousError THEN 1 ELSE IF ~OutputEqual THEN 2 ELSE IF ~ErrorReported THEN 3 ELSE 0

Record ==
  /\ IF TLCGet(tid) < l THEN TLCSet(tid, l) ELSE TRUE
  /\ IF BadClause # 0 /\ TLCGet(NT + tid) = 0 THEN TLCSet(NT + tid, BadClause * 100000 + l) ELSE TRUE

Post == PrintT(<<"VERDICTS_BEGIN",
                 [i \in 1..NT |-> <<TLCGet(i) - 1, TLCGet(NT + i) \div 100000, TLCGet(NT + i) % 100000>>],
                 "VERDICTS_END">>)
=============================================================================
