---------------------------- MODULE PipelineProps ----------------------------
(***************************************************************************)
(* C13 stated over observation variables only.  Shared by the              *)
(* implementation-shaped model (Pipeline.tla), the strict trace spec       *)
(* (PipelineTrace.tla) and the observation monitor (PipelineMon.tla).      *)
(***************************************************************************)
EXTENDS Naturals, FiniteSets, Sequences, TLC

CONSTANTS K,   \* number of items the source supplies before it returns None
          T    \* number of tasks per item

Items == 1..K
Tasks == 1..T

VARIABLES
  began,      \* began[j][i]: how often task j began item i (saturating at 2)
  ended,      \* ended[j][i]: how often task j finished item i
  orderOK,    \* FALSE once task j+1 began an item before task j finished it
  supplied,   \* items the source has returned
  returned,   \* "no" | "ok" | "error": outcome of Pipeline.process()
  lateBegin,  \* TRUE once an item began its first task after a stop request
  raised,     \* a task or the source raised
  stops       \* number of external stop requests so far

AtMostOnce  == \A j \in Tasks, i \in Items : began[j][i] <= 1 /\ ended[j][i] <= 1
InOrder     == orderOK
OnlySupplied == \A j \in Tasks, i \in Items : began[j][i] > 0 => i \in supplied
ExactlyOnceIfNoStop ==
  (returned = "ok" /\ stops = 0) => \A j \in Tasks, i \in supplied : ended[j][i] = 1
AllSuppliedIfNoStop ==
  (returned = "ok" /\ stops = 0) => supplied = Items
NoWorkAfterStop == ~lateBegin
\* (also after a stop request: a task that fails while the pipeline is winding down is still a failure)
ErrorSurfaces == returned = "ok" => ~raised
\* processing does not return while an item is still inside a task ("as soon as the items in flight finish")
NoOrphanWork == (returned = "ok" /\ ~raised) => \A j \in Tasks, i \in Items : began[j][i] = ended[j][i]
=============================================================================
