--------------------------- MODULE AppSeriesProps ---------------------------
(***************************************************************************)
(* C13, application layer: wpull.application.app.Application running a    *)
(* wpull.pipeline.pipeline.PipelineSeries of several Pipelines.            *)
(*                                                                         *)
(* Observation variables, ONE fold `Obs(e)` of an observable event into    *)
(* them, and the property clauses.  The fold is shared: the                *)
(* implementation-shaped model (AppSeries.tla) applies it to the event     *)
(* each of its actions emits, the monitor (AppSeriesMon.tla) applies it to *)
(* the events recorded from the real code.                                 *)
(*                                                                         *)
(* Events (field e = kind):                                                *)
(*   run    ok            Application.run() called; ok = it started        *)
(*   astop                Application.stop() called                        *)
(*   setc   c, pc         PipelineSeries.concurrency = c; pc = observed    *)
(*                        Pipeline.concurrency of every pipeline afterwards*)
(*   uec    c             Application.update_exit_code(c) by the embedder  *)
(*   pbegin p / pend p    pipeline_begin / pipeline_end notifications      *)
(*   src    p, k, v|x     source of p: k = "item" (v) | "none" | "raise"(x)*)
(*   begin  p, i, j       task j of pipeline p begins item i               *)
(*   end    p, i, j, ok, x                                                 *)
(*   crashmsg             "Sorry, Wpull unexpectedly crashed." was logged  *)
(*   ret    code          run() returned code                              *)
(*   retx                 run() raised                                     *)
(*   hang   busy          quiescent (or spinning) without run() returning  *)
(***************************************************************************)
EXTENDS Naturals, FiniteSets, Sequences, TLC

CONSTANTS K     \* maximal number of items per source (domain bound; kk[p] is the actual number)

Items == 1..K

\* exception classes: one per exit-status class of Application.ERROR_CODE_MAP, an expected unmapped one, a crash
XC == {"S", "P", "N", "O", "H", "U"}
Code(x) == IF x = "S" THEN 8 ELSE IF x = "P" THEN 7 ELSE IF x = "N" THEN 4 ELSE IF x = "O" THEN 3 ELSE 1
\* Application.update_exit_code: 0 is neutral, otherwise the smaller code wins (commutative, associative)
Merge(a, b) == IF a = 0 THEN b ELSE IF b = 0 THEN a ELSE IF a < b THEN a ELSE b

VARIABLES
  np, tt,        \* configuration (never changes): number of pipelines in the series, tasks per pipeline
  skp, reg, kk,  \* configuration (never changes): skippable flag, registered in concurrency_pipelines, #items
  mstate,        \* application state as implied by the observable events: ready/running/stopping/stopped
  runRuleOK,     \* run() starts iff the application was ready (second run() = RuntimeError)
  phase,         \* phase[p]: "no" | "begun" | "ended"   (pipeline_begin / pipeline_end seen)
  orderOK,       \* begin/end nested, declared order, each pipeline at most once
  inPhaseOK,     \* source and task activity of p only between pbegin p and pend p
  st,            \* st[p][i]: 0 not begun, 2j-1 inside task j, 2j task j ended
  itemOK,        \* tasks in order, at most once, only items the source supplied
  taken,         \* taken[p]: items the source of p returned
  stopAcc,       \* a stop request was accepted (Application.stop() while running)
  stopAt,        \* the pipeline that was current then (0: none yet)
  lateTake,      \* an item was taken from the source of a stopped/skippable pipeline after the stop
  lateBegin,     \* ... began its first task ...
  lateSkip,      \* a skippable pipeline began after the stop
  raisedX,       \* exception classes raised by tasks/sources so far
  mustFail,      \* a raise that must surface (any source or task raise, also in a pipeline that was told to stop)
  afterFail,     \* new work (pipeline begin, item taken, first task begun) after such a raise
  uecAcc,        \* merge of the codes passed to update_exit_code by the embedder
  crashSeen,     \* crash message logged
  returned,      \* "no" | "ret" | "crash"
  retcode,
  hung,          \* "no" | "legit" | "bad"
  effc,          \* effc[p]: concurrency pipeline p must have by the PipelineSeries rule
  concOK,        \* after every setter call: registered pipelines = new value, others unchanged
  boundOK        \* at every first-task begin: items in flight in p <= effc[p]

cfgvars == <<np, tt, skp, reg, kk>>

Pipes == 1..np
T == tt
obsvars == <<mstate, runRuleOK, phase, orderOK, inPhaseOK, st, itemOK, taken, stopAcc, stopAt, lateTake, lateBegin,
             lateSkip, raisedX, mustFail, afterFail, uecAcc, crashSeen, returned, retcode, hung, effc, concOK, boundOK>>

ObsInit(pc0) ==
  /\ mstate = "ready" /\ runRuleOK = TRUE
  /\ phase = [p \in Pipes |-> "no"] /\ orderOK = TRUE /\ inPhaseOK = TRUE
  /\ st = [p \in Pipes |-> [i \in Items |-> 0]] /\ itemOK = TRUE
  /\ taken = [p \in Pipes |-> {}]
  /\ stopAcc = FALSE /\ stopAt = 0 /\ lateTake = FALSE /\ lateBegin = FALSE /\ lateSkip = FALSE
  /\ raisedX = {} /\ mustFail = FALSE /\ afterFail = FALSE /\ uecAcc = 0 /\ crashSeen = FALSE
  /\ returned = "no" /\ retcode = 0 /\ hung = "no"
  /\ effc = pc0 /\ concOK = TRUE /\ boundOK = TRUE

InFlight(s, p) == {i \in Items : s[p][i] > 0 /\ s[p][i] < 2 * T}
MaxBegun == IF \E p \in Pipes : phase[p] # "no" THEN CHOOSE p \in Pipes : phase[p] # "no" /\ \A q \in Pipes : phase[q] # "no" => q <= p
            ELSE 0
\* pipeline p was told to stop by the application / must not do new work after the accepted stop
Stopped(p) == stopAcc /\ p = stopAt
NoWork(p)  == stopAcc /\ (p <= stopAt \/ skp[p])
XOf(x) == IF x \in XC THEN x ELSE "U"

Obs(e) ==
  LET k   == e.e
      pOK == k \in {"pbegin", "pend", "src", "begin", "end"} /\ e.p \in Pipes
      iOK == k \in {"begin", "end"} /\ pOK /\ e.i \in Items /\ e.j \in 1..T
      accept == k = "astop" /\ mstate = "running"
      failing == \/ k = "src" /\ e.k = "raise"
                 \/ k = "end" /\ ~e.ok
      newWork == \/ k = "pbegin"
                 \/ k = "src" /\ e.k = "item"
                 \/ k = "begin" /\ e.j = 1
  IN
  /\ mstate' = IF k = "run" /\ e.ok /\ mstate = "ready" THEN "running"
               ELSE IF accept THEN "stopping"
               ELSE IF k \in {"ret", "retx"} THEN "stopped" ELSE mstate
  /\ runRuleOK' = IF k = "run" THEN runRuleOK /\ (e.ok = (mstate = "ready")) ELSE runRuleOK
  /\ phase' = IF k = "pbegin" /\ pOK THEN [phase EXCEPT ![e.p] = "begun"]
              ELSE IF k = "pend" /\ pOK THEN [phase EXCEPT ![e.p] = "ended"] ELSE phase
  /\ orderOK' = IF k = "pbegin"
                THEN orderOK /\ pOK /\ mstate \in {"running", "stopping"}
                             /\ \A q \in Pipes : phase[q] # "begun" /\ (q >= e.p => phase[q] = "no")
                ELSE IF k = "pend" THEN orderOK /\ pOK /\ phase[e.p] = "begun"
                ELSE orderOK
  /\ inPhaseOK' = IF k \in {"src", "begin", "end"} THEN inPhaseOK /\ pOK /\ phase[e.p] = "begun" ELSE inPhaseOK
  /\ st' = IF k = "begin" /\ iOK THEN [st EXCEPT ![e.p][e.i] = 2 * e.j - 1]
           ELSE IF k = "end" /\ iOK /\ e.ok THEN [st EXCEPT ![e.p][e.i] = 2 * e.j]
           ELSE st
  /\ itemOK' = IF k = "begin" THEN itemOK /\ iOK /\ st[e.p][e.i] = 2 * (e.j - 1) /\ e.i \in taken[e.p]
               ELSE IF k = "end" THEN itemOK /\ iOK /\ st[e.p][e.i] = 2 * e.j - 1
               ELSE IF k = "src" /\ e.k = "item" THEN itemOK /\ pOK /\ e.v \in 1..kk[e.p] /\ e.v \notin taken[e.p]
               ELSE itemOK
  /\ taken' = IF k = "src" /\ e.k = "item" /\ pOK THEN [taken EXCEPT ![e.p] = @ \cup {e.v}] ELSE taken
  /\ stopAcc' = (stopAcc \/ accept)
  /\ stopAt' = IF accept /\ ~stopAcc THEN MaxBegun ELSE stopAt
  /\ lateTake' = (lateTake \/ (k = "src" /\ e.k = "item" /\ pOK /\ NoWork(e.p)))
  /\ lateBegin' = (lateBegin \/ (k = "begin" /\ e.j = 1 /\ pOK /\ NoWork(e.p)))
  /\ lateSkip' = (lateSkip \/ (k = "pbegin" /\ pOK /\ stopAcc /\ skp[e.p]))
  /\ raisedX' = IF k = "src" /\ e.k = "raise" THEN raisedX \cup {XOf(e.x)}
                ELSE IF k = "end" /\ ~e.ok THEN raisedX \cup {XOf(e.x)} ELSE raisedX
  /\ mustFail' = (mustFail \/ failing)
  /\ afterFail' = (afterFail \/ (mustFail /\ newWork))
  /\ uecAcc' = IF k = "uec" THEN Merge(uecAcc, e.c) ELSE uecAcc
  /\ crashSeen' = (crashSeen \/ k = "crashmsg")
  /\ returned' = IF k = "ret" THEN "ret" ELSE IF k = "retx" THEN "crash" ELSE returned
  /\ retcode' = IF k = "ret" THEN e.code ELSE retcode
  /\ hung' = IF k = "hang"
             THEN (IF ~e.busy /\ ~mustFail /\ \E p \in Pipes : phase[p] = "begun" /\ effc[p] = 0 /\ ~Stopped(p)
                   THEN "legit" ELSE "bad")
             ELSE hung
  /\ effc' = IF k = "setc" THEN [p \in Pipes |-> IF reg[p] THEN e.c ELSE effc[p]] ELSE effc
  /\ concOK' = IF k = "setc" THEN concOK /\ \A p \in Pipes : e.pc[p] = effc'[p] ELSE concOK
  /\ boundOK' = IF k = "begin" /\ e.j = 1 /\ iOK THEN boundOK /\ Cardinality(InFlight(st', e.p)) <= effc[e.p] ELSE boundOK

-----------------------------------------------------------------------------
(* Property clauses                                                         *)

\* 1. series order: pipeline_begin / pipeline_end properly nested, declared order, each pipeline at most once
SeriesOrder == orderOK
\* 2. no item of a pipeline is taken / processed outside its begin..end bracket (so: never before the previous ended)
ItemsInsidePipeline == inPhaseOK
\* 3. tasks of an item in order, each at most once, never ending before beginning, only supplied items
ItemOrder == itemOK
\* 4.-6. after an accepted stop: the pipeline that was running and every skippable one take no further item from their
\*       source, begin no further item, and skippable pipelines do not begin
NoTakeAfterStop  == ~lateTake
NoBeginAfterStop == ~lateBegin
SkippedAfterStop == ~lateSkip
\* 7. run() does not return while an item is inside a task (in-flight items finish) unless something raised
InFlightFinish == (returned = "ret" /\ raisedX = {}) => \A p \in Pipes : InFlight(st, p) = {}
\* 8. when nothing raised, every pipeline ran completely, except: the one stopped by the application and the
\*    skippable ones after it  (so every non-skippable pipeline after a stop still runs all its items)
Exempt(p) == stopAcc /\ (p = stopAt \/ (p > stopAt /\ skp[p]))
CompleteRuns == (returned = "ret" /\ raisedX = {}) =>
                   \A p \in Pipes : Exempt(p) \/ (phase[p] = "ended" /\ taken[p] = 1..kk[p]
                                                   /\ \A i \in 1..kk[p] : st[p][i] = 2 * T)
\* 9. after a failure nothing else runs
NothingAfterFailure == ~afterFail
\* 10. the exit code is the mapped one (min-rule with codes set by the embedder)
Expected == {Merge(uecAcc, Code(x)) : x \in raisedX} \cup (IF mustFail THEN {} ELSE {uecAcc})
ExitCodeMapped == returned = "ret" => retcode \in Expected
\* 11. crash message iff the failure is an unexpected exception
CrashMessage == /\ crashSeen => "U" \in raisedX
                /\ (returned = "ret" /\ mustFail /\ raisedX = {"U"}) => crashSeen
\* 12. / 13. run() always returns
NoHangObs  == hung # "bad"
NoCrashObs == returned # "crash"
\* 14. / 15. concurrency: only registered pipelines follow the series setting; never more items in flight than allowed
ConcFollow == concOK
ConcBound  == boundOK
\* 16. run() twice = RuntimeError (and the first one starts)
RunOnce == runRuleOK
=============================================================================
