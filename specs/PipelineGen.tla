---------------------------- MODULE PipelineGen ----------------------------
(***************************************************************************)
(* Scenario generation (spec -> code): Pipeline.tla plus a history of the  *)
(* environment's choices.  Run with -simulate; every finished behaviour    *)
(* prints its environment script as JSON, which drivers/pipeline.py        *)
(* replays into the real wpull Pipeline.                                   *)
(***************************************************************************)
EXTENDS Pipeline, Json

VARIABLES hist, nb, at
gvars == <<vars, hist, nb, at>>

\* `at` spreads the disturbances uniformly over the run: a disturbance of kind k is enabled
\* only after at[k] task bodies have finished (nb)
GInit == Init /\ hist = <<>> /\ nb = 0 /\ at \in [{"stop", "conc", "raise"} -> 0..(K * T)]

GNext ==
  \/ (PStart \/ PLoop \/ PPut \/ PExit \/ SrcReturn \/ MLoop \/ MWake \/ MUnpause \/ MShutWorkers \/ MShutProducer)
       /\ UNCHANGED <<hist, nb, at>>
  \/ \E w \in Workers : (WGet(w) \/ ItemDone(w)) /\ UNCHANGED <<hist, nb, at>>
  \/ \E w \in Workers : BodyDone(w) /\ hist' = Append(hist, <<"body", witem[w], wtask[w]>>)
                                      /\ nb' = nb + 1 /\ UNCHANGED at
  \/ \E w \in Workers : BodyRaise(w) /\ nb >= at["raise"]
                                       /\ hist' = Append(hist, <<"braise", witem[w], wtask[w]>>) /\ UNCHANGED <<nb, at>>
  \/ Stop /\ nb >= at["stop"] /\ hist' = Append(hist, <<"stop">>) /\ UNCHANGED <<nb, at>>
  \/ \E c \in 0..CMax : SetConc(c) /\ nb >= at["conc"] /\ hist' = Append(hist, <<"setc", c>>) /\ UNCHANGED <<nb, at>>
  \/ SrcRaise /\ nb >= at["raise"] /\ hist' = Append(hist, <<"sraise">>) /\ UNCHANGED <<nb, at>>

GSpec == GInit /\ [][GNext]_gvars

\* print the script once the run is over (terminal, or quiescent)
Emit == IF Terminal \/ ~ENABLED Next
        THEN PrintT(<<"SCRIPT", ToJson(hist)>>) /\ FALSE
        ELSE TRUE
=============================================================================
