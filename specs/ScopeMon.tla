------------------------------ MODULE ScopeMon ------------------------------
(***************************************************************************)
(* Conformance of the real filter list / FetchRule.consult_filters with    *)
(* Scope.tla: one vector (configuration, link record, what the real code   *)
(* answered) per trace.  bad = 1: the real code would REQUEST a URL that   *)
(* the rules forbid (C02 violation); 2: it refuses one the rules allow     *)
(* (over-restrictive: model drift for C02); 3: the set of active rules     *)
(* differs; 4: some rule's verdict differs without changing the decision.  *)
(***************************************************************************)
EXTENDS Scope, Json, IOUtils, TLCExt

Batch == JsonDeserialize(IOEnv.TRACE_FILE)
NT    == Len(Batch)
VARIABLES tid, l
mvars == <<tid, l>>
V == Batch[tid]

MInit == tid \in 1..NT /\ l = 1
MNext == l = 1 /\ l' = 2 /\ UNCHANGED tid
MSpec == MInit /\ [][MNext]_mvars

RealNames == {n \in Names : V.real.on[n]}
Clause ==
  IF V.real.may /\ ~MayRequest(V.c, V.r) THEN 1
  ELSE IF ~V.real.may /\ MayRequest(V.c, V.r) THEN 2
  ELSE IF RealNames # Active(V.c) THEN 3
  ELSE IF \E n \in Active(V.c) : V.real.pass[n] # F(n, V.c, V.r) THEN 4
  ELSE 0

NameSeq == <<"Directory", "Domain", "Filename", "FollowFTP", "Hostname", "Level", "Parent", "Recursive", "Regex",
             "Scheme", "SpanHosts", "Tries">>
\* the first rule that forbids the URL according to Scope.tla but did not stop the real code
Culprit == LET S == {i \in 1..Len(NameSeq) : /\ NameSeq[i] \in Active(V.c) /\ ~F(NameSeq[i], V.c, V.r)
                                              /\ (~V.real.on[NameSeq[i]] \/ V.real.pass[NameSeq[i]])}
           IN IF S = {} THEN 99 ELSE CHOOSE i \in S : \A j \in S : i <= j

ASSUME \A i \in 1..(2 * NT) : TLCSet(i, 0)
Record ==
  /\ IF TLCGet(tid) < l THEN TLCSet(tid, l) ELSE TRUE
  /\ IF l = 1 /\ Clause # 0 THEN TLCSet(NT + tid, Clause * 100000 + (IF Clause = 1 THEN Culprit ELSE 1)) ELSE TRUE
Post == PrintT(<<"VERDICTS_BEGIN",
                 [i \in 1..NT |-> <<TLCGet(i) - 1, TLCGet(NT + i) \div 100000, TLCGet(NT + i) % 100000>>],
                 "VERDICTS_END">>)
=============================================================================
