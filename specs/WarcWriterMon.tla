--------------------------- MODULE WarcWriterMon ---------------------------
(***************************************************************************)
(* Observation monitor for C05, C06, C07.                                  *)
(* Input: executions of the REAL wpull WARCRecorder.  Every file-system    *)
(* operation of the recorder is one event; each event carries the          *)
(* projection (independent reader, drivers/warcwriter_reader.py) of what   *)
(* is on disk at that moment - i.e. of what a process killed there leaves  *)
(* behind - as a delta `ch`; the `end` event carries the full projection   *)
(* of the files and of the CDX file.  The monitor folds the events into    *)
(* the abstract view of WarcWriterProps and evaluates every clause at      *)
(* every step.  It assumes nothing about the recorder's internals; it      *)
(* decides VIOLATION.  Verdict per trace: a bit mask of the failed clauses.*)
(***************************************************************************)
EXTENDS WarcWriterProps, Json, IOUtils, TLCExt, TLC

CONSTANTS Prop     \* "C05" | "C06" | "C07": which property's clauses are evaluated

Batch == JsonDeserialize(IOEnv.TRACE_FILE)
NT    == Len(Batch)
FIds  == 0..11

VARIABLES tid, l,
  disk,        \* [FIds -> Seq([ok, len, ty, rid, cid])]   cid: identity of the member's bytes
  jr,          \* [FIds -> [st, n]]
  bef,         \* content of the current archive when write_record was entered
  curf,        \* the archive write_record was last entered for (99: none yet)
  lastFault,   \* [cls, before, after, j] when an I/O error left write_record
  sawFault,    \* an I/O error has been injected in this execution
  pre,         \* disk when the process was started
  startBad,    \* a recorder started although a journal existed
  refChanged,  \* a refused start-up modified a file
  cdxgap,      \* between two appends the index on disk did not name exactly the response records on disk
  fin          \* [has, files, sz, cdx, cdxon, cdxhdr]     full projection at the end of a fault-free process

mvars == <<tid, l, disk, jr, bef, curf, lastFault, sawFault, pre, startBad, refChanged, cdxgap, fin>>

Ev  == Batch[tid].ev
Cur == Ev[l]

JAbs == [st |-> "absent", n |-> 0]
NoFault == [cls |-> "none", before |-> <<>>, after |-> <<>>, j |-> JAbs]
NoFin == [has |-> FALSE, files |-> [f \in FIds |-> <<>>], sz |-> [f \in FIds |-> 0], cdx |-> <<>>,
          cdxon |-> FALSE, cdxhdr |-> TRUE]

Lite(ms) == [i \in 1..Len(ms) |->
               [ok |-> ms[i].s = "complete", len |-> ms[i].l, ty |-> ms[i].t, rid |-> ms[i].r, cid |-> ms[i].c,
                h |-> ms[i].h]]

Has(ch, f) == \E i \in 1..Len(ch) : ch[i].f = f
Ent(ch, f) == ch[CHOOSE i \in 1..Len(ch) : ch[i].f = f]
FoldD(d, ch) == [f \in FIds |-> IF Has(ch, f) THEN Lite(Ent(ch, f).m) ELSE d[f]]
FoldJ(j, ch) == [f \in FIds |-> IF Has(ch, f) THEN [st |-> Ent(ch, f).j, n |-> Ent(ch, f).jn] ELSE j[f]]

(* ---- the full projection, converted to the member / line shape of WarcWriterProps ---- *)
Pdo(m) == IF ~m.pdp THEN "none"
          ELSE IF m.t = "revisit" THEN (IF m.pdw THEN "wire" ELSE "other")
          ELSE IF ~m.http THEN "none"
          ELSE IF m.pdf /\ m.hlf /\ m.pdk = m.hl THEN "wire" ELSE "other"
Tr(m)  == IF m.t # "revisit" THEN "na" ELSE IF m.hlf /\ m.bl = m.hl THEN "wire" ELSE "other"

Full(m) == [ok |-> m.s = "complete", len |-> m.l, off |-> m.o,
            ty |-> IF m.t = "response" /\ ~m.resp THEN "response-nonhttp" ELSE m.t,
            rid |-> m.r, wid |-> m.w, cto |-> m.ct, pdo |-> Pdo(m), tr |-> Tr(m),
            n |-> m.n, ver |-> m.ver, he |-> m.he, tailok |-> m.tail, nb |-> m.nb,
            clok |-> m.clf /\ m.cl = m.bl, bd |-> m.bd, u |-> m.u, st |-> m.st, mi |-> m.mi, dg |-> m.dg, hc |-> m.hc,
            \* what the scripted server sent for this URL (hw: known)
            hw |-> m.hw, wst |-> m.wst, wmi |-> m.wmi, pdp |-> m.pdp, pdw |-> m.pdw]

FullFiles(fl) == [f \in FIds |->
                    IF \E i \in 1..Len(fl) : fl[i].f = f
                    THEN LET e == fl[CHOOSE i \in 1..Len(fl) : fl[i].f = f] IN [i \in 1..Len(e.m) |-> Full(e.m[i])]
                    ELSE <<>>]
FullSizes(fl) == [f \in FIds |->
                    IF \E i \in 1..Len(fl) : fl[i].f = f THEN fl[CHOOSE i \in 1..Len(fl) : fl[i].f = f].sz ELSE 0]
FullLines(cx) == [j \in 1..Len(cx) |->
                    [rid |-> cx[j].r, f |-> cx[j].g, off |-> cx[j].o, len |-> cx[j].l, wf |-> cx[j].wf,
                     u |-> cx[j].u, st |-> cx[j].st, mi |-> cx[j].mi, dg |-> cx[j].dg]]

MInit ==
  /\ tid \in 1..NT /\ l = 1
  /\ disk = [f \in FIds |-> <<>>] /\ jr = [f \in FIds |-> JAbs]
  /\ bef = <<>> /\ curf = 99 /\ lastFault = NoFault /\ sawFault = FALSE
  /\ pre = [f \in FIds |-> <<>>] /\ startBad = FALSE /\ refChanged = FALSE /\ cdxgap = FALSE
  /\ fin = NoFin

MNext ==
  /\ l <= Len(Ev) /\ l' = l + 1 /\ UNCHANGED tid
  /\ LET e  == Cur
         d2 == FoldD(disk, e.ch)
         j2 == FoldJ(jr, e.ch)
     IN
     /\ disk' = d2 /\ jr' = j2
     \* (an append that fails WITHOUT an injected I/O error - cls "none" - is the recorder's own doing: what it leaves
     \* behind is judged like the files of any other run)
     /\ sawFault' = (sawFault \/ (e.e = "op" /\ e.inj) \/ (e.e = "aend" /\ ~e.ok /\ e.cls # "none"))
     /\ bef' = IF e.e = "abegin" THEN d2[e.fi] ELSE bef
     /\ curf' = IF e.e = "abegin" THEN e.fi ELSE curf
     /\ lastFault' = IF e.e = "aend" /\ ~e.ok
                     THEN [cls |-> e.cls, before |-> bef, after |-> d2[e.fi], j |-> j2[e.fi]]
                     ELSE lastFault
     /\ pre' = IF e.e = "boot" THEN d2 ELSE pre
     /\ startBad' = (startBad \/ (e.e = "start" /\ e.jpre /\ ~e.refused))
     /\ refChanged' = (refChanged \/ (e.e = "start" /\ e.refused /\ d2 # pre))
     \* Whenever write_record is entered no append is in flight: what is on disk then - what a process killed there
     \* leaves behind - has one index line for each HTTP response record and no other.  (First process of the
     \* execution only: a later one may find files of a run it does not continue.)
     /\ cdxgap' = (cdxgap \/ (/\ e.e = "abegin" /\ e.cx /\ e.cq /\ ~sawFault /\ pre = [f \in FIds |-> <<>>]
                               /\ \A f \in FIds : j2[f].st = "absent"
                               /\ LET HR == {a \in AllMembers(d2, FIds) : d2[a[1]][a[2]].ok /\ d2[a[1]][a[2]].h} IN
                                  ~(/\ Cardinality(HR) = Len(e.cr)
                                    /\ \A a \in HR : \E j \in 1..Len(e.cr) : e.cr[j] = d2[a[1]][a[2]].rid
                                    /\ \A j1, j2x \in 1..Len(e.cr) : j1 # j2x => e.cr[j1] # e.cr[j2x])))
     /\ fin' = IF e.e = "end" /\ e.hasfull /\ ~sawFault
               THEN [has |-> TRUE, files |-> FullFiles(e.full.files), sz |-> FullSizes(e.full.files),
                     cdx |-> FullLines(e.full.cdx), cdxon |-> e.full.cdxon, cdxhdr |-> e.full.cdxhdr]
               ELSE fin

MSpec == MInit /\ [][MNext]_mvars

-----------------------------------------------------------------------------
(* C06 - clause numbers are the bits of the verdict mask *)
C06Bad ==
  LET crash == CrashOK(disk, jr, FIds) IN
  {i \in 1..11 :
     \/ i = 10 /\ lastFault.cls = "cdx" /\ ~FaultContentOK(lastFault.cls, lastFault.before, lastFault.after)
     \/ i = 11 /\ lastFault.cls = "cdx" /\ ~FaultJournalOK(lastFault.cls, lastFault.j)
     \/ i = 9 /\ curf # 99 /\ ~sawFault /\ ~JournalNamesOK(jr, FIds, curf, bef)     \* JournalNamesPreAppendLength
     \/ i = 1 /\ ~sawFault /\ ~crash                                  \* CrashRecoverable (no I/O error involved)
     \/ i = 2 /\ sawFault /\ ~crash                                   \* CrashRecoverable during / after error handling
     \/ i = 3 /\ lastFault.cls = "journal" /\ ~FaultContentOK(lastFault.cls, lastFault.before, lastFault.after)
     \/ i = 4 /\ lastFault.cls = "archive" /\ ~FaultContentOK(lastFault.cls, lastFault.before, lastFault.after)
     \/ i = 5 /\ lastFault.cls = "journal" /\ ~FaultJournalOK(lastFault.cls, lastFault.j)
     \/ i = 6 /\ lastFault.cls = "archive" /\ ~FaultJournalOK(lastFault.cls, lastFault.j)
     \/ i = 7 /\ startBad                                             \* StartupRefusesOverJournal
     \/ i = 8 /\ refChanged}                                          \* RefusedStartupTouchesNothing

(* C05 *)
D  == fin.files
AM == AllMembers(D, FIds)
M(a) == D[a[1]][a[2]]
PayloadBad(t) == \E a \in AM : M(a).ok /\ M(a).ty = t /\ M(a).pdo = "other"

C05Bad ==
  IF ~fin.has THEN {} ELSE
  {i \in 1..14 :
     \* the payload of a response is the body the server sent (whatever else precedes the header block in the block)
     \/ i = 14 /\ \E a \in AM : M(a).ok /\ M(a).ty = "response" /\ M(a).hw /\ M(a).pdp /\ ~M(a).pdw
     \/ i = 1 /\ ~(\A f \in FIds : /\ ValidSeq(D[f]) /\ Size(D[f]) = fin.sz[f]
                                   /\ \A k \in 1..Len(D[f]) : D[f][k].off = Offset(D[f], k))     \* FilesAreRecordSequences
     \/ i = 2 /\ \E a \in AM : M(a).ok /\ M(a).n # 1                    \* OneRecordPerGzipMember
     \/ i = 3 /\ \E a \in AM : M(a).ok /\ ~(M(a).ver /\ M(a).he /\ M(a).tailok)   \* RecordFraming (version, CRLF CRLF)
     \/ i = 4 /\ \E a \in AM : M(a).ok /\ M(a).nb # 0                   \* NamedFieldsOneLineEach
     \/ i = 5 /\ \E a \in AM : M(a).ok /\ ~M(a).clok                    \* ContentLengthIsBlockLength
     \/ i = 6 /\ ~(IdsUnique(D, FIds) /\ \A a \in AM : M(a).ok => M(a).rid # 0)   \* RecordIdsUnique
     \/ i = 7 /\ \E f \in FIds : ~WarcinfoPtrOK(D[f])                   \* WarcinfoIdPointsAtFilesWarcinfo
     \/ i = 8 /\ \E a \in AM : M(a).ok /\ M(a).bd = "other"             \* BlockDigestIsSha1OfBlock
     \/ i = 9 /\ PayloadBad("request")                                  \* PayloadDigestRange (request)
     \/ i = 10 /\ PayloadBad("response")                                \* PayloadDigestRange (response)
     \/ i = 11 /\ PayloadBad("revisit")                                 \* PayloadDigestRange (revisit)
     \/ i = 12 /\ \E f \in FIds : ~RevisitCutOK(D[f])                   \* RevisitBlockIsHeaderBlock
     \/ i = 13 /\ \E a \in AM : M(a).ok /\ M(a).cto # 0 /\ ~\E b \in AM : M(b).ok /\ M(b).rid = M(a).cto}

(* C07 *)
L == fin.cdx
HdrBad(c) == \E a \in RespMembers(D, FIds) :
                M(a).hc = c /\ \E j \in LinesOf(D, L, a) : ~(L[j].st = M(a).st /\ L[j].mi = M(a).mi)
C07Bad ==
  (IF cdxgap THEN {10} ELSE {}) \cup                       \* IndexCompleteBetweenAppends
  IF ~(fin.has /\ fin.cdxon) THEN {} ELSE
  {i \in 1..9 :
     \* status and media type are those of the response the server sent (the final one, not an interim one; of its own
     \* Content-Type field, not of text inside another field's value)
     \/ i = 9 /\ \E a \in RespMembers(D, FIds) :
                    M(a).hw /\ \E j \in LinesOf(D, L, a) : ~(L[j].st = M(a).wst /\ L[j].mi = M(a).wmi)
     \/ i = 1 /\ ~CdxOnePerResponse(D, FIds, L)
     \/ i = 2 /\ ~CdxNoStrayLine(D, FIds, L)
     \/ i = 3 /\ ~CdxAddressOK(D, FIds, L)
     \/ i = 4 /\ \E a \in RespMembers(D, FIds) : \E j \in LinesOf(D, L, a) : ~(L[j].u = M(a).u /\ L[j].dg = M(a).dg)
     \/ i = 5 /\ HdrBad("empty")
     \/ i = 6 /\ HdrBad("short")
     \/ i = 7 /\ HdrBad("over4k")
     \/ i = 8 /\ ~(fin.cdxhdr /\ \A j \in 1..Len(L) : L[j].wf)}

BadSet == IF Prop = "C05" THEN C05Bad ELSE IF Prop = "C06" THEN C06Bad ELSE C07Bad

-----------------------------------------------------------------------------
ASSUME \A i \in 1..(2 * NT) : TLCSet(i, 0)

RECURSIVE MaskUpTo(_, _)
MaskUpTo(S, n) == IF n = 0 THEN 0 ELSE MaskUpTo(S, n - 1) + (IF n \in S THEN 2 ^ (n - 1) ELSE 0)
BitsOf(x) == {i \in 1..14 : (x \div (2 ^ (i - 1))) % 2 = 1}

Record ==
  /\ IF TLCGet(tid) < l THEN TLCSet(tid, l) ELSE TRUE
  /\ LET old  == TLCGet(NT + tid)
         oldS == BitsOf(old \div 100000)
         line == IF old = 0 THEN l ELSE old % 100000
     IN IF BadSet \subseteq oldS THEN TRUE
        ELSE TLCSet(NT + tid, MaskUpTo(oldS \cup BadSet, 14) * 100000 + line)

Post == PrintT(<<"VERDICTS_BEGIN",
                 [i \in 1..NT |-> <<TLCGet(i) - 1, TLCGet(NT + i) \div 100000, TLCGet(NT + i) % 100000>>],
                 "VERDICTS_END">>)
=============================================================================
