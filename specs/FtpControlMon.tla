--------------------------- MODULE FtpControlMon ---------------------------
(***************************************************************************)
(* Observation monitor for C17: folds the events recorded from the real    *)
(* wpull FTP client (bytes the fake server received and sent, Reply        *)
(* objects the client assembled, end-of-transfer notifications) into the   *)
(* observation variables of FtpControlProps and evaluates every property   *)
(* clause at every step.  No assumption about the client's internals: this *)
(* decides VIOLATION (the strict spec FtpControlTrace decides DRIFT).      *)
(*                                                                         *)
(* Reply assembly is judged twice:                                         *)
(*  ReplyAssembly   against the RFC 959 grammar, for control streams that   *)
(*                  are well-formed in the narrow sense of FtpControlProps *)
(*  CutIndependent  against the replies / commands / outcome the same      *)
(*                  client produced for the same server strategy delivered *)
(*                  in whole pieces (field ref of the trace)               *)
(***************************************************************************)
EXTENDS FtpControlProps, Json, IOUtils, TLCExt

Batch == JsonDeserialize(IOEnv.TRACE_FILE)
NT    == Len(Batch)

VARIABLES tid, l,
          stream,     \* control bytes the server has sent on the current control connection
          ccodes,     \* codes of the replies assembled on the current control connection
          allReplies, \* every reply of the run: <<code, text>>
          begun,      \* a 1xx reply was read in this session: a transfer is under way
          endv,       \* outcome of the run ("" while running)
          cutOK
mvars == <<cmdBytes, auto, replyOK, transferComplete, dataEOFSeen, finalReplySeen, finalCode, bodyOK,
           tid, l, stream, ccodes, allReplies, begun, endv, cutOK>>

Ev  == Batch[tid].ev
Cur == Ev[l]
Ref == Batch[tid].ref

MInit ==
  /\ tid \in 1..NT /\ l = 1
  /\ cmdBytes = <<>> /\ auto = Auto0 /\ replyOK = TRUE /\ transferComplete = FALSE /\ dataEOFSeen = FALSE
  /\ finalReplySeen = FALSE /\ finalCode = 0 /\ bodyOK = TRUE
  /\ stream = <<>> /\ ccodes = <<>> /\ allReplies = <<>> /\ begun = FALSE /\ endv = "" /\ cutOK = TRUE

MNext ==
  /\ l <= Len(Ev) /\ l' = l + 1 /\ UNCHANGED tid
  /\ LET e == Cur
         k == e.e
         ncodes == IF k = "reply" THEN Append(ccodes, e.code) ELSE ccodes
         nall   == IF k = "reply" THEN Append(allReplies, <<e.code, e.text>>) ELSE allReplies
         ncmds  == IF k = "cmd" THEN Append(cmdBytes, e.b) ELSE cmdBytes
     IN
     /\ cmdBytes' = ncmds
     /\ auto' = IF k = "cmd" THEN AutoFold(auto, e.b)
                ELSE IF k = "conn" THEN <<"start", FALSE, auto[3]>>
                ELSE IF k = "session" THEN <<"start", auto[2], auto[3]>> ELSE auto
     /\ stream' = IF k = "conn" THEN <<>> ELSE IF k \in {"sent", "sentfinal"} THEN stream \o e.b ELSE stream
     /\ ccodes' = IF k = "conn" THEN <<>> ELSE ncodes
     /\ allReplies' = nall
     /\ replyOK' = IF k = "reply"
                   THEN replyOK /\ (RfcWellFormed(stream) => IsPrefix(ncodes, RfcCodes(stream)))
                   ELSE replyOK
     /\ begun' = IF k = "session" THEN FALSE ELSE IF k = "reply" /\ e.code >= 100 /\ e.code <= 199 THEN TRUE ELSE begun
     /\ dataEOFSeen' = IF k = "session" THEN FALSE ELSE IF k = "deof" THEN TRUE ELSE dataEOFSeen
     /\ finalReplySeen' = IF k = "session" THEN FALSE ELSE IF k = "reply" /\ begun THEN TRUE ELSE finalReplySeen
     /\ finalCode' = IF k = "session" THEN 0 ELSE IF k = "reply" /\ begun THEN e.code ELSE finalCode
     /\ transferComplete' = IF k = "session" THEN FALSE ELSE IF k = "complete" THEN TRUE ELSE transferComplete
     /\ bodyOK' = IF k = "session" THEN TRUE ELSE IF k = "complete" THEN e.body = e.sent ELSE bodyOK
     /\ endv' = IF k = "end" THEN e.v ELSE endv
     /\ cutOK' = IF k = "end" /\ l = Len(Ev) /\ Ref.has
                 THEN cutOK /\ nall = Ref.replies /\ ncmds = Ref.cmds /\ e.v = Ref.v
                 ELSE cutOK

MSpec == MInit /\ [][MNext]_mvars

CutIndependent == cutOK

ASSUME \A i \in 1..(2 * NT) : TLCSet(i, 0)

BadClause ==
  IF ~OneLine THEN 1 ELSE IF ~AutomatonPath THEN 2 ELSE IF ~ReplyAssembly THEN 3 ELSE IF ~CutIndependent THEN 4
  ELSE IF ~CompleteAfterEOF THEN 5 ELSE IF ~CompleteAfterFinal THEN 6 ELSE IF ~CompleteBody THEN 7 ELSE 0

Record ==
  /\ IF TLCGet(tid) < l THEN TLCSet(tid, l) ELSE TRUE
  /\ IF BadClause # 0 /\ TLCGet(NT + tid) = 0 THEN TLCSet(NT + tid, BadClause * 100000 + l) ELSE TRUE

Post == PrintT(<<"VERDICTS_BEGIN",
                 [i \in 1..NT |-> <<TLCGet(i) - 1, TLCGet(NT + i) \div 100000, TLCGet(NT + i) % 100000>>],
                 "VERDICTS_END">>)
=============================================================================
