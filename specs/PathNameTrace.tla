--------------------------- MODULE PathNameTrace ---------------------------
(***************************************************************************)
(* Strict trace spec for C15: did the real code choose the path that the   *)
(* transcription of PathName.tla chooses?  (DRIFT only.)  The record       *)
(* carries the configuration, the kind of call and its inputs; for URL     *)
(* calls the normalised URL is the one the real URLInfo produced.          *)
(***************************************************************************)
EXTENDS PathName, Json, IOUtils, TLCExt

Batch == JsonDeserialize(IOEnv.TRACE_FILE)
NT    == Len(Batch)

VARIABLES tid, l
tvars == <<tid, l>>
Ev == Batch[tid].ev

ModelOf(e) ==
  IF e.cl = "P" THEN LET r == SafeFilename(e.part, e.cfg) IN IF r.ok THEN [ok |-> TRUE, parts |-> <<r.v>>] ELSE [ok |-> FALSE]
  ELSE IF e.hascd THEN SessionParts(e.nurl, e.cfg, e.cd) ELSE GetFilename(e.nurl, e.cfg)

Agrees(e) ==
  LET m == ModelOf(e) IN
  \/ ~m.ok /\ e.oc = "valueerror"
  \/ m.ok /\ e.oc = "value" /\ e.pre /\ Matches(m.parts, e.parts)

TInit == tid \in 1..NT /\ l = 1
TNext == l <= Len(Ev) /\ Agrees(Ev[l]) /\ l' = l + 1 /\ UNCHANGED tid
TSpec == TInit /\ [][TNext]_tvars

ASSUME \A i \in 1..(2 * NT) : TLCSet(i, 0)
Record == IF TLCGet(tid) < l THEN TLCSet(tid, l) ELSE TRUE
Post == PrintT(<<"VERDICTS_BEGIN",
                 [i \in 1..NT |-> <<TLCGet(i) - 1, TLCGet(NT + i) \div 100000, TLCGet(NT + i) % 100000>>],
                 "VERDICTS_END">>)
=============================================================================
