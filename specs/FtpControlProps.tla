-------------------------- MODULE FtpControlProps --------------------------
(***************************************************************************)
(* C17 stated over observation variables only, plus the byte-level         *)
(* vocabulary (lines, reply grammar, command names) shared by the          *)
(* implementation-shaped model (FtpControl.tla), the strict trace spec     *)
(* (FtpControlTrace.tla) and the observation monitor (FtpControlMon.tla).  *)
(* Bytes are naturals 0..255; byte strings are sequences of them.          *)
(***************************************************************************)
EXTENDS Naturals, Sequences, FiniteSets, TLC

CR   == 13
LF   == 10
NUL  == 0
SP   == 32
DASH == 45
CRLF == <<CR, LF>>

IsDigit(b) == b >= 48 /\ b <= 57
Digits(c)  == <<48 + ((c \div 100) % 10), 48 + ((c \div 10) % 10), 48 + (c % 10)>>
Has(s, b)  == \E i \in 1..Len(s) : s[i] = b
Count(s, b) == Cardinality({i \in 1..Len(s) : s[i] = b})
Contains(s, lit) == \E i \in 1..(Len(s) + 1 - Len(lit)) : SubSeq(s, i, i + Len(lit) - 1) = lit
IsPrefix(a, b) == Len(a) <= Len(b) /\ SubSeq(b, 1, Len(a)) = a

\* command names as byte strings
nUSER == <<85, 83, 69, 82>>
nPASS == <<80, 65, 83, 83>>
nSIZE == <<83, 73, 90, 69>>
nREST == <<82, 69, 83, 84>>
nTYPE == <<84, 89, 80, 69>>
nPASV == <<80, 65, 83, 86>>
nRETR == <<82, 69, 84, 82>>
nMLSD == <<77, 76, 83, 68>>
nLIST == <<76, 73, 83, 84>>
NameOf(bs) == IF bs = nUSER THEN "USER" ELSE IF bs = nPASS THEN "PASS" ELSE IF bs = nSIZE THEN "SIZE"
              ELSE IF bs = nREST THEN "REST" ELSE IF bs = nTYPE THEN "TYPE" ELSE IF bs = nPASV THEN "PASV"
              ELSE IF bs = nRETR THEN "RETR" ELSE IF bs = nMLSD THEN "MLSD" ELSE IF bs = nLIST THEN "LIST"
              ELSE "?"

-----------------------------------------------------------------------------
(* Lines                                                                    *)

\* the complete lines (each including its LF) of s, from position start
RECURSIVE LinesFrom(_, _, _)
LinesFrom(s, start, i) ==
  IF i > Len(s) THEN <<>>
  ELSE IF s[i] = LF THEN <<SubSeq(s, start, i)>> \o LinesFrom(s, i + 1, i + 1)
  ELSE LinesFrom(s, start, i + 1)
Lines(s) == LinesFrom(s, 1, 1)

\* what is left after the last LF
RECURSIVE LastLF(_, _)
LastLF(s, i) == IF i = 0 THEN 0 ELSE IF s[i] = LF THEN i ELSE LastLF(s, i - 1)
Rest(s) == SubSeq(s, LastLF(s, Len(s)) + 1, Len(s))

\* first word of a line: bytes before the first SP / CR / LF
RECURSIVE WordEnd(_, _)
WordEnd(s, i) == IF i > Len(s) \/ s[i] \in {SP, CR, LF} THEN i - 1 ELSE WordEnd(s, i + 1)
FirstWord(s) == SubSeq(s, 1, WordEnd(s, 1))

-----------------------------------------------------------------------------
(* Clause 1: one command = one line                                         *)

\* a command as the server received it: ends with CR LF, no other CR or LF inside
\* (and no NUL: on the Telnet-framed control connection NUL is not data - RFC 854 uses CR NUL for a bare CR -, so
\* servers cut or reinterpret the line there; the statement names NULs among the bytes a URL must not smuggle in)
OneLineBytes(b) ==
  /\ Len(b) >= 2 /\ b[Len(b) - 1] = CR /\ b[Len(b)] = LF
  /\ Count(b, CR) = 1 /\ Count(b, LF) = 1 /\ Count(b, 0) = 0

-----------------------------------------------------------------------------
(* Clause 2: the order of commands is a path of the protocol automaton      *)
(* (names only; "start" = a session begins; everUser: a USER was sent on    *)
(* this control connection, so a later session may skip the login)          *)

AutoNext(st, name, everUser) ==
  CASE st = "start" -> IF name = "USER" THEN TRUE ELSE everUser /\ name \in {"SIZE", "TYPE"}
    [] st = "USER"  -> name \in {"PASS", "SIZE", "TYPE"}
    [] st = "PASS"  -> name \in {"SIZE", "TYPE"}
    [] st = "SIZE"  -> name \in {"REST", "TYPE"}
    [] st = "REST"  -> name = "TYPE"
    [] st = "TYPE"  -> name = "PASV"
    [] st = "PASV"  -> name \in {"RETR", "MLSD", "LIST"}
    [] st = "MLSD"  -> name = "LIST"
    [] OTHER        -> FALSE

\* fold the complete lines of a command segment through the automaton
RECURSIVE AutoLines(_, _, _)
AutoLines(a, ls, i) ==
  IF i > Len(ls) THEN a
  ELSE LET name == NameOf(FirstWord(ls[i])) IN
       \* a command outside the automaton's vocabulary is not this clause's business (lenient reading):
       \* an injected line is OneLine's
       IF name = "?" THEN AutoLines(a, ls, i + 1)
       ELSE AutoLines(<<name, a[2] \/ name = "USER", a[3] /\ AutoNext(a[1], name, a[2])>>, ls, i + 1)
AutoFold(a, bytes) == AutoLines(a, Lines(bytes), 1)
Auto0 == <<"start", FALSE, TRUE>>

-----------------------------------------------------------------------------
(* Clause 3/4: reply grammar (RFC 959 4.2) as a function of the byte stream *)

Code3(l)  == (l[1] - 48) * 100 + (l[2] - 48) * 10 + (l[3] - 48)
Has3(l)   == Len(l) >= 4 /\ IsDigit(l[1]) /\ IsDigit(l[2]) /\ IsDigit(l[3])
\* a well-formed line: ends with CR LF and has no other CR (LF cannot occur inside a line)
GoodEOL(l)   == Len(l) >= 2 /\ l[Len(l) - 1] = CR /\ Count(l, CR) = 1
FinalLine(l) == Has3(l) /\ l[4] = SP
StartLine(l) == Has3(l) /\ l[4] = DASH

\* Fold the lines of a stream with the RFC grammar.  State: <<codes so far, open code (0: none), ok>>
\* The grammar is the narrow, unambiguous one (the lenient oracle): LF-only line ends and bare CRs make the stream
\* "not well-formed"; inside a multi-line reply only the line with the code of the opening line ends the reply.
RfcStep(st, l) ==
  IF ~st[3] \/ ~GoodEOL(l) THEN <<st[1], st[2], FALSE>>
  ELSE IF st[2] = 0
       THEN IF FinalLine(l) THEN <<Append(st[1], Code3(l)), 0, TRUE>>
            ELSE IF StartLine(l) THEN <<st[1], Code3(l), TRUE>>
            ELSE <<st[1], 0, FALSE>>
       \* RFC 959 4.2: the user-process searches for the second occurrence of THE SAME code followed by a space and
       \* ignores all intermediary lines - also one that begins with another number and a space
       ELSE IF FinalLine(l) /\ Code3(l) = st[2] THEN <<Append(st[1], st[2]), 0, TRUE>>
            ELSE st
RECURSIVE RfcFold(_, _, _)
RfcFold(st, ls, i) == IF i > Len(ls) THEN st ELSE RfcFold(RfcStep(st, ls[i]), ls, i + 1)
Rfc(stream)        == RfcFold(<<<<>>, 0, TRUE>>, Lines(stream), 1)
RfcWellFormed(stream) == Rfc(stream)[3]
RfcCodes(stream)      == Rfc(stream)[1]

-----------------------------------------------------------------------------
(* Observation variables                                                    *)
VARIABLES
  cmdBytes,          \* sequence of commands as the server received them (one element per command issued)
  auto,              \* <<automaton state, everUser, ok>>: the command lines on the wire folded through the automaton
  replyOK,           \* every reply the client assembled so far is the reference assembly of the bytes it was cut from
  transferComplete,  \* download() reported the transfer complete
  dataEOFSeen,       \* the client has read the data connection to its end
  finalReplySeen,    \* a reply read after the data connection's end has been assembled
  finalCode,         \* its code (0: none)
  bodyOK             \* at completion: bytes handed to the file = bytes the server sent on the data connection

OneLine      == \A i \in 1..Len(cmdBytes) : OneLineBytes(cmdBytes[i])
AutomatonPath == auto[3]
ReplyAssembly == replyOK
CompleteAfterEOF   == transferComplete => dataEOFSeen
CompleteAfterFinal == transferComplete => (finalReplySeen /\ finalCode >= 200 /\ finalCode <= 299)
CompleteBody       == transferComplete => bodyOK
=============================================================================
