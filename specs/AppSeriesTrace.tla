--------------------------- MODULE AppSeriesTrace ---------------------------
(***************************************************************************)
(* Strict trace validation: is a recorded execution of the real            *)
(* Application.run() over a PipelineSeries a behaviour of AppSeries.tla?   *)
(* Every recorded event must be the event emitted by an enabled action of  *)
(* the model (actions without an event are taken silently).  Batch of      *)
(* traces in one JSON file; verdicts in TLC registers, printed by Post.    *)
(***************************************************************************)
EXTENDS AppSeries, Json, IOUtils, TLCExt

Batch == JsonDeserialize(IOEnv.TRACE_FILE)
NT    == Len(Batch)

VARIABLES tid, l
tvars == <<vars, tid, l>>

Ev  == Batch[tid].ev
Cur == Ev[l]
Is(name) == l <= Len(Ev) /\ Cur.e = name
Step   == l' = l + 1 /\ UNCHANGED tid
Silent == UNCHANGED <<tid, l>>

TInit == /\ tid \in 1..NT /\ l = 1
         /\ LET B == Batch[tid]
                D == 1..B.np IN
              InitWith(B.np, B.tt, [p \in D |-> B.skp[p]], [p \in D |-> B.reg[p]],
                       [p \in D |-> B.kk[p]], [p \in D |-> B.pc0[p]])

TRun == /\ Is("run") /\ Step
        /\ IF Cur.ok THEN Run ELSE RunRejected

TStop == /\ Is("astop") /\ Step
         /\ Cur.acted = (ast = "running")
         /\ (StopAccepted \/ StopIgnored)

TSetc == /\ Is("setc") /\ Step
         /\ Cur.c \in 0..CMax /\ SetConc(Cur.c)
         /\ \A p \in Pipes : Cur.pc[p] = effc'[p]

TUec == /\ Is("uec") /\ Step /\ Uec(Cur.c)

TPBegin == /\ Is("pbegin") /\ Step /\ PickBegin /\ cur' = Cur.p

TPEnd == /\ Is("pend") /\ Step /\ Cur.p \in Pipes /\ PReturnOK(Cur.p)

TSrc == /\ Is("src") /\ Step /\ Cur.p \in Pipes
        /\ \/ Cur.k = "item" /\ Take(Cur.p) /\ Cur.v = NTaken(Cur.p) + 1
           \/ Cur.k = "none" /\ SrcNone(Cur.p)
           \/ Cur.k = "raise" /\ Cur.x \in XC /\ SrcRaise(Cur.p, Cur.x)

TBegin == /\ Is("begin") /\ Step /\ Cur.p \in Pipes /\ Cur.i \in Items
          /\ \/ Cur.j = 1 /\ Begin(Cur.p) /\ Cur.i = MinOf(Ahead(Cur.p))
             \/ Cur.j > 1 /\ BeginNext(Cur.p, Cur.i) /\ Cur.j = st[Cur.p][Cur.i] \div 2 + 1

TEnd == /\ Is("end") /\ Step /\ Cur.p \in Pipes /\ Cur.i \in Items
        /\ Cur.j = (st[Cur.p][Cur.i] + 1) \div 2
        /\ IF Cur.ok THEN EndOK(Cur.p, Cur.i) ELSE (Cur.x \in XC /\ TaskRaise(Cur.p, Cur.i, Cur.x))

TCrash == /\ Is("crashmsg") /\ Step
          /\ \E p \in Pipes : PFail(p) /\ perr[p] = "U"

TRet == /\ Is("ret") /\ Step /\ Finish /\ Cur.code = code

THang == /\ Is("hang") /\ Step
         /\ ~Progress
         /\ Obs(Cur) /\ UNCHANGED <<ctlvars, cfgvars, budvars>>

\* steps of the model that produce no event in the recording
TSilent ==
  /\ Silent
  /\ \/ PickSkip
     \/ \E p \in Pipes : PFail(p) /\ perr[p] # "U"

TNext == TRun \/ TStop \/ TSetc \/ TUec \/ TPBegin \/ TPEnd \/ TSrc \/ TBegin \/ TEnd \/ TCrash \/ TRet \/ THang \/ TSilent

TSpec == TInit /\ [][TNext]_tvars

ASSUME \A i \in 1..(2 * NT) : TLCSet(i, 0)

\* the strict spec only reports how far it got; property clauses are the monitor's business
Record == IF TLCGet(tid) < l THEN TLCSet(tid, l) ELSE TRUE

Post == PrintT(<<"VERDICTS_BEGIN",
                 [i \in 1..NT |-> <<TLCGet(i) - 1, 0, 0>>],
                 "VERDICTS_END">>)
=============================================================================
