---------------------------- MODULE PathNameGen ----------------------------
(***************************************************************************)
(* C15 scenario generator and design check (same shape as UrlNormGen):     *)
(* Init picks a naming configuration of the cluster, Expand picks the      *)
(* input (path part / URL / Content-Disposition value).  Every scenario is *)
(* printed as JSON for the driver; with Check on, the transcription of     *)
(* PathName.tla is evaluated and Contained is checked on it.               *)
(*   P  safe_filename:  parts (<= 3 symbols + catalogue) x 120 sanitiser   *)
(*      configurations                                                     *)
(*   U  get_filename:   URLs (2 schemes x 4 host/query forms x paths of    *)
(*      <= 3 catalogue segments) x 64 structural configurations            *)
(*   X  get_filename:   the same URLs x 120 sanitiser configurations with  *)
(*      protocol + host directories and cut 1                              *)
(*   H  writer session: Content-Disposition values (<= 4 symbols +         *)
(*      catalogue) x 3 URLs x 16 configurations                            *)
(***************************************************************************)
EXTENDS PathName, Json

CONSTANTS Cluster, SampleMod, SampleRem, Check, EmitOn

VARIABLES st, i1, sc, res
vars == <<st, i1, sc, res>>

Range(f) == {f[i] : i \in DOMAIN f}
Strs(C, k) == UNION {[1..n -> Range(C)] : n \in 0..k}

N1 == CASE Cluster = "P" -> 120 [] Cluster = "U" -> 64 [] Cluster = "H" -> 16 [] Cluster = "X" -> 120

Keep(x) == SampleMod = 1 \/ x.al \/ Hash(x.t) % SampleMod = SampleRem

\* The kept inputs of the cluster: 0-ary, so TLC computes each set once (and only the one of this cluster).
\* (the empty string is not a path part: no caller passes one)
KeptParts ==
  IF Cluster # "P" THEN {}
  ELSE {y \in {[t |-> p, al |-> Len(p) < 2] : p \in Strs(PartClasses, 3) \ {<<>>}} : Keep(y)}
       \cup {[t |-> PartCat[i], al |-> TRUE] : i \in 1..Len(PartCat)}

SegLists == {<<>>} \cup {<<a>> : a \in 1..Len(NameSegs)} \cup {<<a, b>> : a \in 1..Len(NameSegs), b \in 1..Len(NameSegs)}
            \cup {<<a, b, c>> : a \in 1..Len(NameSegs), b \in 1..Len(NameSegs), c \in 1..Len(NameSegs)}
KeptUrls ==
  IF Cluster \notin {"U", "X"} THEN {}
  ELSE {y \in {[t  |-> NameSchemes[s] \o NameHostQuery[h][1] \o <<SLASH>> \o Join([k \in 1..Len(sg) |-> NameSegs[sg[k]]], SLASH)
                       \o (IF tr /\ Len(sg) > 0 THEN <<SLASH>> ELSE <<>>) \o NameHostQuery[h][2],
                al |-> Len(sg) < 1] :
                 s \in 1..Len(NameSchemes), h \in 1..Len(NameHostQuery), sg \in SegLists, tr \in BOOLEAN} : Keep(y)}

KeptCD ==
  IF Cluster # "H" THEN {}
  ELSE {y \in {[t |-> Flat(v), al |-> Len(v) < 2] : v \in Strs(CDSymbols, 4)} : Keep(y)}
       \cup {[t |-> CDCat[i], al |-> TRUE] : i \in 1..Len(CDCat)}

\* scenario record: kind, cfg, and the input
Scen(i) ==
  CASE Cluster = "P" -> {[cl |-> "P", cfg |-> SanCfgs[i], part |-> x.t, url |-> <<>>, cd |-> <<>>, hascd |-> FALSE] : x \in KeptParts}
    [] Cluster = "U" -> {[cl |-> "U", cfg |-> StructCfgs[i], part |-> <<>>, url |-> x.t, cd |-> <<>>, hascd |-> FALSE] : x \in KeptUrls}
    [] Cluster = "X" -> {[cl |-> "U", cfg |-> [SanCfgs[i] EXCEPT !.ud = TRUE, !.cut = 1, !.pr = TRUE, !.hn = TRUE],
                             part |-> <<>>, url |-> x.t, cd |-> <<>>, hascd |-> FALSE] : x \in KeptUrls}
    [] Cluster = "H" -> {[cl |-> "H", cfg |-> CDCfgs[i], part |-> <<>>, url |-> CDUrls[u], cd |-> x.t, hascd |-> TRUE] :
                            x \in KeptCD, u \in 1..Len(CDUrls)}

\* the transcription on a scenario: [oc, parts]
Model(s) ==
  IF s.cl = "P" THEN LET r == SafeFilename(s.part, s.cfg) IN IF r.ok THEN [oc |-> "value", parts |-> <<r.v>>] ELSE [oc |-> "valueerror"]
  ELSE LET n == Norm(s.url, "utf-8") IN
       IF n.oc # "value" \/ ~n.net THEN [oc |-> "nourl"]
       ELSE LET r == IF s.hascd THEN SessionParts(n.url, s.cfg, s.cd) ELSE GetFilename(n.url, s.cfg) IN
            IF r.ok THEN [oc |-> "value", parts |-> r.parts] ELSE [oc |-> "valueerror"]

Init == st = "open" /\ i1 \in 1..N1 /\ sc = <<>> /\ res = <<>>
Expand == /\ st = "open"
          /\ \E s \in Scen(i1) : sc' = s /\ res' = IF Check THEN Model(s) ELSE <<>>
          /\ st' = "done" /\ UNCHANGED i1
Next == Expand
Spec == Init /\ [][Next]_vars

Emit == (st = "done" /\ EmitOn) => PrintT(ToJson(sc))

-----------------------------------------------------------------------------
(* Design check.  GapWinTail: the input class of finding 22 (windows mode,  *)
(* a component ending in '.' or ' '): the code raises instead of choosing a *)
(* path; accepted by the invariant until FixWinTail is TRUE.                *)
Done == st = "done" /\ Check
GapWinTail == ~FixWinTail /\ sc.cfg.os = "windows"
MReturns   == Done => (res.oc \in {"value", "nourl"} \/ (res.oc = "valueerror" /\ GapWinTail))
MContained == (Done /\ res.oc = "value") => Contained(res.parts, sc.cfg.os, sc.cfg.nc)
TypeOK == st \in {"open", "done"} /\ i1 \in 1..N1
=============================================================================
