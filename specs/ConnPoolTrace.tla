--------------------------- MODULE ConnPoolTrace ---------------------------
(***************************************************************************)
(* Strict trace validation: is a recorded execution of the real            *)
(* wpull.network.pool.ConnectionPool a behaviour of ConnPool.tla?          *)
(* Every event is matched with a model action, and the projection of the   *)
(* real pool logged with the event (host pools present, idle / checked-out *)
(* connection ids, waiter counters, lock flags, closed connections) must   *)
(* equal the model state after the action.  Blocks of tasks that produce   *)
(* no event (a task parks again, a release task queues on a lock) are      *)
(* silent steps.  A rejection is MODEL-DRIFT, never an alarm.              *)
(* Batch of traces in one JSON file (IOEnv.TRACE_FILE); one initial state  *)
(* per trace; per-trace verdicts in TLC registers, printed by Post.        *)
(***************************************************************************)
EXTENDS ConnPool, Json, IOUtils, TLCExt

Batch == JsonDeserialize(IOEnv.TRACE_FILE)
NT    == Len(Batch)

CONSTANT RMax          \* release-task numbers used in the batch
RIds == 1..RMax

VARIABLES tid, l,
          rmap         \* [release-task number of the log -> slot of the model (0: none)]
xvars == <<vars, tid, l, rmap>>

Ev  == Batch[tid].ev
Cur == Ev[l]
Is(names) == l <= Len(Ev) /\ Cur.e \in names
Step   == l' = l + 1 /\ UNCHANGED tid
Silent == UNCHANGED <<tid, l, rmap>>
ToSet(s) == {s[i] : i \in DOMAIN s}

TInit == tid \in 1..NT /\ l = 1 /\ rmap = [r \in RIds |-> 0] /\ Init

\* the projection logged with the event = the model state after the step
\* (closed() is compared for idle connections only: what happens to a connection while a client holds it is the
\* client's business, the pool sees it again - closed or not, field cl - when it is given back)
Seen == UNION {ready'[k] : k \in Keys}
ProjOK ==
  LET e == Cur
      P == e.p IN
  /\ \A k \in Keys : /\ present'[k] = P[k].pr
                     /\ ready'[k] = ToSet(P[k].rd) /\ busy'[k] = ToSet(P[k].bz)
                     /\ waiters'[k] = P[k].w /\ ~P[k].wneg
                     /\ lock'[k].held = P[k].lk
  /\ lock'[0].held = e.gl
  /\ {x \in Seen : cstat'[x] # "up"} = ToSet(e.dd) \cap Seen

InC == Cur.c \in Clients

TStart   == Is({"start"}) /\ Step /\ InC /\ Cur.k \in Keys /\ Start(Cur.c, Cur.k) /\ ProjOK /\ UNCHANGED rmap
TGot     == Is({"got"}) /\ Step /\ InC /\ pc[Cur.c] \in AcqPcs /\ RunTask(Cur.c)
            /\ pc'[Cur.c] = "use" /\ tc'[Cur.c] = Cur.x /\ ProjOK /\ UNCHANGED rmap
TAcqx    == Is({"acqx"}) /\ Step /\ InC /\ pc[Cur.c] \in AcqPcs /\ RunTask(Cur.c)
            /\ pc'[Cur.c] = (IF Cur.why = "cancel" THEN "cancelled" ELSE "errored") /\ ProjOK /\ UNCHANGED rmap
TConnect == Is({"connect"}) /\ Step /\ InC /\ pc[Cur.c] = "use" /\ tc[Cur.c] = Cur.x /\ Connect(Cur.c, Cur.ok)
            /\ ProjOK /\ UNCHANGED rmap
TKill    == Is({"kill"}) /\ Step /\ Cur.x \in Conns /\ Kill(Cur.x) /\ ProjOK /\ UNCHANGED rmap
TRel     == Is({"rel"}) /\ Step /\ InC /\ pc[Cur.c] = "use" /\ tc[Cur.c] = Cur.x
            /\ Finish(Cur.c, Cur.mode, Cur.cl) /\ ProjOK
            /\ IF Cur.mode = "n" THEN Cur.r \in RIds /\ rmap' = [rmap EXCEPT ![Cur.r] = Min(FreeRT)] ELSE UNCHANGED rmap
TReld    == Is({"reld"}) /\ Step /\ InC /\ pc[Cur.c] \in RelPcs /\ RunTask(Cur.c) /\ pc'[Cur.c] = "idle"
            /\ ProjOK /\ UNCHANGED rmap
TRelx    == Is({"relx"}) /\ Step /\ InC /\ pc[Cur.c] \in RelPcs /\ RunTask(Cur.c)
            /\ pc'[Cur.c] = (IF Cur.why = "cancel" THEN "cancelled" ELSE "errored") /\ ProjOK /\ UNCHANGED rmap
\* a release task is over (a task cancelled before its first step is reported late, from its done-callback)
TRtask   == Is({"rtask"}) /\ Step /\ Cur.r \in RIds /\ rmap[Cur.r] # 0
            /\ LET t == rmap[Cur.r]
                   fin == CASE Cur.st = "done" -> "done" [] Cur.st = "cancelled" -> "cancelled" [] OTHER -> "errored" IN
               \/ pc[t] \notin Terminal /\ RunTask(t) /\ pc'[t] = fin /\ ProjOK
               \/ pc[t] = fin /\ fin = "cancelled" /\ UNCHANGED vars
            /\ rmap' = [rmap EXCEPT ![Cur.r] = 0]
TCancel  == Is({"cancel"}) /\ Step /\ InC /\ Cancel(Cur.c) /\ ProjOK /\ UNCHANGED rmap
\* the loop had nothing left to run
TQuiet   == Is({"quiet", "end"}) /\ Step /\ Quiet /\ UNCHANGED vars /\ ProjOK /\ UNCHANGED rmap

\* blocks that produce no event
TSilent ==
  /\ Silent
  /\ \E t \in Threads : /\ RunTask(t)
                        /\ \/ pc'[t] \in Parked
                           \/ ~IsClient(t) /\ pc[t] = "xnew"

TNext == TStart \/ TGot \/ TAcqx \/ TConnect \/ TKill \/ TRel \/ TReld \/ TRelx \/ TRtask \/ TCancel \/ TQuiet \/ TSilent

TSpec == TInit /\ [][TNext]_xvars

\* ---- per-trace verdict registers: i -> furthest line reached, NT+i -> first violated property clause
ASSUME \A i \in 1..(2 * NT) : TLCSet(i, 0)

BadClause ==
  IF ~Mutex THEN 1 ELSE IF ~HeldBusy THEN 2 ELSE IF ~Disjoint THEN 3 ELSE IF ~Bound THEN 4
  ELSE IF ~WaitersAccounted THEN 5 ELSE IF ~BusyAccounted THEN 6 ELSE IF ~WaiterServed THEN 7
  ELSE IF ~ReleaseCompletes THEN 8 ELSE IF ~NoLeak THEN 9 ELSE 0

Record ==
  /\ IF TLCGet(tid) < l THEN TLCSet(tid, l) ELSE TRUE
  /\ IF BadClause # 0 /\ TLCGet(NT + tid) = 0 THEN TLCSet(NT + tid, BadClause * 100000 + l) ELSE TRUE

Post == PrintT(<<"VERDICTS_BEGIN",
                 [i \in 1..NT |-> <<TLCGet(i) - 1, TLCGet(NT + i) \div 100000, TLCGet(NT + i) % 100000>>],
                 "VERDICTS_END">>)
=============================================================================
