----------------------------- MODULE WebSession -----------------------------
(***************************************************************************)
(* C16.  Implementation-shaped model of one visit of wpull's web client:   *)
(*   wpull/protocol/http/web.py   WebSession.__init__ / start /            *)
(*        _process_response / _process_redirect / _process_authentication  *)
(*        / _add_basic_auth_header / _add_cookies / _extract_cookies       *)
(*   wpull/protocol/http/request.py  Request.prepare_for_send (Host is set *)
(*        only when absent; the request-target is always recomputed)       *)
(*   wpull/protocol/http/redirect.py RedirectTracker                       *)
(*   wpull/cookiewrapper.py + http.cookiejar (the Cookie field is computed *)
(*        only when the request has none)                                  *)
(*   wpull/processor/web.py  WebProcessorSession._add_referrer             *)
(* against a server (environment) that answers every request with          *)
(*   200 | 301 | 302 | 303 | 307 | 308 | 401 | 500, a Location (a URL,     *)
(*   missing, unparsable) and possibly a cookie for the host asked.        *)
(*                                                                         *)
(* A request OBJECT is a record [url, host, auth, cookie, referer, login]  *)
(* (host = <<>>: no Host field; cookie = {}: no Cookie field);             *)
(* the first request object is also the "original request" (aliasing: what *)
(* is done to it while it is being sent stays on the original).            *)
(*                                                                         *)
(* Observation: last (the request just put on the wire), nsent, outcome.   *)
(***************************************************************************)
EXTENDS Naturals, Sequences, FiniteSets, TLC

CONSTANTS Hosts,       \* host names (model values or strings)
          Paths,       \* path tokens
          Schemes,     \* subset of {"http", "https"}
          PortsC,      \* subset of {"def", "alt"}
          MaxRed,      \* RedirectTracker.max_redirects
          MaxHops,     \* bound of the exploration: requests per visit
          Statuses,    \* status codes the server uses: subset of {200, 301, 302, 303, 307, 308, 401, 500}
          FixCopy      \* TRUE: repaired _process_redirect (fields derived from the URL are not copied)

URLs == [scheme : Schemes, host : Hosts, port : PortsC, path : Paths, creds : BOOLEAN]
\* hostname_with_port: the default port of either scheme is omitted (http://h and https://h give the same string)
Authority(u) == IF u.port = "def" THEN <<u.host, "def">> ELSE <<u.host, u.port, u.scheme>>
NoHost == <<>>
CookieKey(u) == <<u.host, u.creds>>                \* http.cookiejar derives the cookie domain from the netloc, user-info included

NoReq == [none |-> TRUE]

VARIABLES
  orig,     \* WebSession._original_request (the object)
  nxt,      \* WebSession._next_request (NoReq: done)
  alias,    \* nxt IS orig (same object)
  n,        \* RedirectTracker._num_redirects
  loop,     \* "normal" | "redirect" | "auth"
  hwa,      \* _hostnames_with_auth
  jar,      \* cookie jar: set of CookieKey
  phase,    \* "ready" | "await" | "done" | "error"
  last,     \* observation: the request just sent [url, host, auth, cookie, referer, copy]
  nsent,    \* observation: number of requests sent
  copyflag, \* the request object in nxt was made by copying the original (307/308)
  ar        \* WebSession._authentication_retried: the one retry with credentials has been used

vars == <<orig, nxt, alias, n, loop, hwa, jar, phase, last, nsent, copyflag, ar>>

-----------------------------------------------------------------------------
\* cookies of the jar that http.cookiejar would put on a request for u
Match(u, j) == IF CookieKey(u) \in j THEN {u.host} ELSE {}

\* CookieJarWrapper.add_cookie_header: only when the request has no Cookie field yet
WithCookies(r, j) == IF r.cookie = {} /\ Match(r.url, j) # {} THEN [r EXCEPT !.cookie = Match(r.url, j)] ELSE r

\* _add_basic_auth_header: user-info of the URL first, else the login given to the request
WithAuth(r) == IF r.url.creds THEN [r EXCEPT !.auth = r.url.host]
               ELSE IF r.login THEN [r EXCEPT !.auth = "login"] ELSE r

\* prepare_for_send
Prepared(r) == IF r.host = NoHost THEN [r EXCEPT !.host = Authority(r.url)] ELSE r

Fresh(u) == [url |-> u, host |-> NoHost, auth |-> "none", cookie |-> {}, referer |-> "none", login |-> FALSE]

\* WebProcessorSession._add_referrer: never from https to http
FirstRequest(u, ref, login) ==
  [Fresh(u) EXCEPT !.referer = (IF ref = "https" /\ u.scheme = "http" THEN "none" ELSE ref), !.login = login]

InitWith(u, ref, login, jar0) ==
  /\ jar = jar0
  /\ orig = WithCookies(FirstRequest(u, ref, login), jar0) /\ nxt = orig /\ alias = TRUE
  /\ n = 0 /\ loop = "normal" /\ hwa = {} /\ phase = "ready"
  /\ last = NoReq /\ nsent = 0 /\ copyflag = FALSE /\ ar = FALSE

Init == \E u \in URLs, ref \in {"none", "http", "https"}, login \in BOOLEAN, jar0 \in SUBSET {<<h, FALSE>> : h \in Hosts} :
          InitWith(u, ref, login, jar0)

-----------------------------------------------------------------------------
\* WebSession.start + Session.start + Stream.write_request
Start ==
  /\ phase = "ready" /\ nsent < MaxHops
  /\ LET r1 == IF nxt.url.creds \/ Authority(nxt.url) \in hwa THEN WithAuth(nxt) ELSE nxt
         r2 == Prepared(r1) IN
       /\ nxt' = r2
       /\ orig' = IF alias THEN r2 ELSE orig
       /\ last' = [url |-> r2.url, host |-> r2.host, auth |-> r2.auth, cookie |-> r2.cookie,
                   referer |-> r2.referer, copy |-> copyflag]
  /\ nsent' = nsent + 1 /\ phase' = "await"
  /\ UNCHANGED <<alias, n, loop, hwa, jar, copyflag, ar>>

\* the copy of the original request made for a 307 / 308
Copy(u) ==
  IF FixCopy
  THEN [orig EXCEPT !.url = u, !.host = NoHost, !.cookie = {},
                    !.auth = (IF Authority(u) = Authority(orig.url) /\ u.scheme = orig.url.scheme THEN orig.auth ELSE "none"),
                    !.referer = (IF orig.referer = "https" /\ u.scheme = "http" THEN "none" ELSE orig.referer)]
  ELSE [orig EXCEPT !.url = u]

\* the server answers; WebSession._process_response
Respond(status, kind, loc, setcookie) ==
  /\ phase = "await"
  /\ LET n1   == IF kind # "missing" THEN n + 1 ELSE n
         jar1 == IF setcookie THEN jar \cup {CookieKey(nxt.url)} ELSE jar
         isred == status \in {301, 302, 303, 307, 308}
     IN
     /\ n' = n1
     /\ IF isred
        THEN IF n1 > MaxRed \/ kind \in {"missing", "bad"}
             THEN /\ phase' = "error" /\ UNCHANGED <<orig, nxt, alias, loop, hwa, jar, copyflag, ar>>
             ELSE /\ nxt' = WithCookies(Prepared(IF status \in {307, 308} THEN Copy(loc) ELSE Fresh(loc)), jar1)
                  /\ copyflag' = (status \in {307, 308})
                  /\ alias' = FALSE /\ loop' = "redirect" /\ phase' = "ready" /\ jar' = jar1
                  /\ UNCHANGED <<orig, hwa, ar>>
        \* one retry with the credentials per session, and never for a request that already carried them
        ELSE IF status = 401 /\ nxt.login /\ loop # "auth" /\ ~ar /\ nxt.auth = "none"
        THEN /\ nxt' = WithCookies(WithAuth(nxt), jar1) /\ ar' = TRUE
             /\ orig' = IF alias THEN nxt' ELSE orig
             /\ loop' = "auth" /\ hwa' = hwa \cup {Authority(nxt.url)} /\ phase' = "ready" /\ jar' = jar1
             /\ UNCHANGED <<alias, copyflag>>
        ELSE /\ nxt' = NoReq /\ loop' = "normal" /\ phase' = "done" /\ jar' = jar1
             /\ UNCHANGED <<orig, alias, hwa, copyflag, ar>>
  /\ last' = NoReq       \* the observation has been consumed (it is checked in the state right after Start)
  /\ UNCHANGED nsent

Redirects == {301, 302, 303, 307, 308}
AnyURL == CHOOSE u \in URLs : TRUE

\* kind: the Location field is a URL ("url": loc), absent ("missing") or unparsable ("bad")
RespondAny ==
  \/ \E st \in Statuses \ Redirects, sc \in BOOLEAN : Respond(st, "missing", AnyURL, sc)
  \/ \E st \in Statuses \cap Redirects, kind \in {"missing", "bad"}, sc \in BOOLEAN : Respond(st, kind, AnyURL, sc)
  \/ \E st \in Statuses \cap Redirects, loc \in URLs, sc \in BOOLEAN : Respond(st, "url", loc, sc)

Next == Start \/ RespondAny
Spec == Init /\ [][Next]_vars

-----------------------------------------------------------------------------
(* C16 on the observation `last` (every request put on the wire)            *)
Sent == last # NoReq
\* (the request-target is recomputed from the URL at every send: it is part of the byte-level projection only)
OneHostOK  == Sent => last.host = Authority(last.url)
AuthOK     == Sent => last.auth \in {"none", "login", last.url.host}
CookieOK   == Sent => last.cookie \subseteq {last.url.host}
RefererOK  == Sent => ~(last.referer = "https" /\ last.url.scheme = "http")
BoundOK    == nsent <= 2 * (MaxRed + 1)
RedirectBound == n <= MaxRed + 1

\* The unchanged tree violates C16 in exactly one way (DESIGN section 6, finding 17): a request made by COPYING
\* the original for a 307/308.  These invariants say there is no other way in the model of the code as it is.
AsIsOneHost == (Sent /\ last.host # Authority(last.url)) => (~FixCopy /\ last.copy)
AsIsAuth    == (Sent /\ last.auth \notin {"none", "login", last.url.host}) => (~FixCopy /\ last.copy)
AsIsCookie  == (Sent /\ ~(last.cookie \subseteq {last.url.host})) => (~FixCopy /\ last.copy)
AsIsReferer == (Sent /\ last.referer = "https" /\ last.url.scheme = "http") => (~FixCopy /\ last.copy)

TypeOK ==
  /\ phase \in {"ready", "await", "done", "error"} /\ loop \in {"normal", "redirect", "auth"}
  /\ n \in 0..(MaxHops + 1) /\ nsent \in 0..MaxHops
  /\ (phase \in {"ready", "await"}) => nxt # NoReq
=============================================================================
