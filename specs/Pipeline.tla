------------------------------ MODULE Pipeline ------------------------------
(***************************************************************************)
(* Implementation-shaped model of wpull/pipeline/pipeline.py               *)
(*   ItemQueue / Producer / Worker / Pipeline                              *)
(* as it executes on asyncio (CPython 3.12).  One action = one await-free  *)
(* block or a finer slice of it (a superset of the real interleavings).    *)
(*                                                                         *)
(* The condition variable's lock is never held across a suspension, so     *)
(* every "acquire; notify_all; release" is one atomic step and the lock is *)
(* not modelled.  asyncio.PriorityQueue: put_nowait wakes ONE parked       *)
(* getter per put; a woken getter re-checks emptiness and may park again.  *)
(*                                                                         *)
(* Observation variables: began/ended (per task, per item), orderOK,       *)
(* supplied, returned, lateBegin, raised.                                  *)
(***************************************************************************)
EXTENDS PipelineProps

CONSTANTS WMax,       \* worker-id pool (>= max concurrency)
          C0,         \* initial concurrency
          CMax,       \* maximal concurrency value for SetConcurrency
          MaxStop,    \* budget of external stop requests (0/1)
          MaxConc,    \* budget of concurrency changes
          MaxRaise,   \* budget of exceptions (task or source)
          FixStopWake, \* TRUE: the repaired shutdown (DESIGN section 6, findings 1 and 2)
          FixShutErr   \* TRUE: _shutdown_processing re-raises the failure of a worker that crashed while stopping

Workers == 1..WMax
PILL    == 0

VARIABLES
  q,          \* set of <<priority, entry, item>>; item = PILL for a poison pill
  ec,         \* ItemQueue._entry_count
  unfinished, \* ItemQueue._unfinished_items
  closed,     \* (repaired code only) producer released at shutdown
  src,        \* next item the source will return (K+1: exhausted)
  ppc,        \* producer program counter
  held,       \* item the producer is trying to put
  prun,       \* Producer._running
  pexc,       \* producer task finished with an exception
  pstopped,   \* (repaired code) stop requested before the producer task's first step
  wpc,        \* worker program counters
  witem,      \* item held by a worker
  wtask,      \* index of the task a worker is at
  wtasks,     \* Pipeline._worker_tasks
  mpc,        \* Pipeline.process program counter
  pstate,     \* PipelineState
  conc,       \* Pipeline._concurrency
  unpaused,   \* Pipeline._unpaused_event
  concs, raises  \* budgets used (stops is an observation variable: PipelineProps)

qvars   == <<q, ec, unfinished, closed>>
pvars   == <<src, ppc, held, prun, pexc, pstopped>>
wvars   == <<wpc, witem, wtask>>
mvars   == <<wtasks, mpc, pstate, conc, unpaused>>
obsvars == <<began, ended, orderOK, supplied, returned, lateBegin, raised>>
budvars == <<stops, concs, raises>>
vars    == <<qvars, pvars, wvars, mvars, obsvars, budvars>>

-----------------------------------------------------------------------------
MinEntry(S) == CHOOSE e \in S : \A f \in S : (e[1] < f[1]) \/ (e[1] = f[1] /\ e[2] <= f[2])

InitWith(c0) ==
  /\ q = {} /\ ec = 0 /\ unfinished = 0 /\ closed = FALSE
  /\ src = 1 /\ ppc = "start" /\ held = 0 /\ prun = FALSE /\ pexc = FALSE /\ pstopped = FALSE
  /\ wpc = [w \in Workers |-> "none"] /\ witem = [w \in Workers |-> 0] /\ wtask = [w \in Workers |-> 0]
  /\ wtasks = {} /\ mpc = "loop" /\ pstate = "running" /\ conc = c0 /\ unpaused = (IF FixStopWake THEN c0 > 0 ELSE TRUE)
  /\ stops = 0 /\ concs = 0 /\ raises = 0
  /\ began = [j \in Tasks |-> [i \in Items |-> 0]]
  /\ ended = [j \in Tasks |-> [i \in Items |-> 0]]
  /\ orderOK = TRUE /\ supplied = {} /\ returned = "no" /\ lateBegin = FALSE /\ raised = FALSE

Init == InitWith(C0)

(* ---- condition variable: notify_all wakes the producer if it is parked ---- *)
Notified(pc) == IF pc = "put_wait" THEN "put" ELSE IF pc = "ww_wait" THEN "get" ELSE pc

(* ---- queue.put_nowait wakes one parked getter (any one: a superset of FIFO) ---- *)
PutWake(wp, wp2) ==
  IF \E w \in Workers : wp[w] = "parked"
  THEN \E w \in Workers : wp[w] = "parked" /\ wp2 = [wp EXCEPT ![w] = "get"]
  ELSE wp2 = wp

(* n puts in a row (pills) wake up to n parked getters *)
PutWakeN(wp, wp2, n) ==
  LET parked == {w \in Workers : wp[w] = "parked"}
      m == IF n < Cardinality(parked) THEN n ELSE Cardinality(parked)
  IN \E R \in SUBSET parked :
        /\ Cardinality(R) = m
        /\ wp2 = [w \in Workers |-> IF w \in R THEN "get" ELSE wp[w]]

Pills(n) == { <<0, ec + i - 1, PILL>> : i \in 1..n }

-----------------------------------------------------------------------------
(* Producer.process / process_one / ItemQueue.put_item / wait_for_worker    *)

\* first step of the producer task: Producer.process() sets _running (a stop request that arrived between
\* create_task and this step found _running = FALSE; the repaired Producer remembers it in `pstopped`)
PStart ==
  /\ ppc = "start"
  /\ prun' = IF FixStopWake THEN ~pstopped ELSE TRUE
  /\ ppc' = "get"
  /\ UNCHANGED <<src, held, pexc, pstopped>>
  /\ UNCHANGED <<qvars, wvars, mvars, obsvars, budvars>>

\* top of "while self._running", then call of item_source.get_item()
PLoop ==
  /\ ppc = "get"
  /\ ppc' = IF prun THEN "src" ELSE "exit"
  /\ UNCHANGED <<src, held, prun, pexc, pstopped>>
  /\ UNCHANGED <<qvars, wvars, mvars, obsvars, budvars>>

\* the source answers
SrcReturn ==
  /\ ppc = "src"
  /\ IF src <= K
     THEN /\ held' = src /\ src' = src + 1 /\ supplied' = supplied \cup {src} /\ ppc' = "put"
          /\ UNCHANGED prun
     ELSE /\ UNCHANGED <<held, src, supplied>>
          /\ IF unfinished = 0
             THEN prun' = FALSE /\ ppc' = "exit"            \* self.stop(); break
             ELSE /\ ppc' = IF closed THEN "get" ELSE "ww_wait"   \* wait_for_worker(): parks on the condition
                  /\ UNCHANGED prun
  /\ UNCHANGED <<pexc, pstopped>>
  /\ UNCHANGED <<qvars, wvars, mvars, budvars>>
  /\ UNCHANGED <<began, ended, orderOK, returned, lateBegin, raised>>

SrcRaise ==
  /\ ppc = "src" /\ raises < MaxRaise
  /\ raises' = raises + 1 /\ raised' = TRUE
  /\ ppc' = "exit_exc"
  /\ UNCHANGED <<src, held, prun, pexc, pstopped>>
  /\ UNCHANGED <<qvars, wvars, mvars, stops, concs>>
  /\ UNCHANGED <<began, ended, orderOK, supplied, returned, lateBegin>>

\* ItemQueue.put_item: loop test, then either park on the condition or put
PPut ==
  /\ ppc = "put"
  /\ IF Cardinality(q) > 0 /\ ~closed
     THEN /\ ppc' = "put_wait" /\ UNCHANGED <<q, ec, unfinished, held, wpc>>
     ELSE /\ unfinished' = unfinished + 1
          /\ q' = q \cup {<<1, ec, held>>} /\ ec' = ec + 1
          /\ PutWake(wpc, wpc') /\ held' = 0 /\ ppc' = "get"
  /\ UNCHANGED <<closed, src, prun, pexc, pstopped, witem, wtask>>
  /\ UNCHANGED <<mvars, obsvars, budvars>>

\* Pipeline.stop() body (running -> stopping; producer.stop(); one pill per worker task)
StopBody ==
  /\ pstate' = "stopping" /\ prun' = FALSE /\ pstopped' = (pstopped \/ ~prun)
  /\ q' = q \cup Pills(Cardinality(wtasks)) /\ ec' = ec + Cardinality(wtasks)
  /\ PutWakeN(wpc, wpc', Cardinality(wtasks))
  /\ unpaused' = IF FixStopWake THEN TRUE ELSE unpaused

\* _run_producer_wrapper: normal exit -> self.stop(); exception -> self.stop(); raise
PExit ==
  /\ ppc \in {"exit", "exit_exc"}
  /\ ppc' = "done" /\ pexc' = (ppc = "exit_exc")
  /\ IF pstate = "running"
     THEN StopBody
     ELSE UNCHANGED <<pstate, prun, pstopped, q, ec, wpc, unpaused>>
  /\ UNCHANGED <<unfinished, closed, src, held, witem, wtask, wtasks, mpc, conc>>
  /\ UNCHANGED <<obsvars, budvars>>

-----------------------------------------------------------------------------
(* Worker.process / process_one / ItemQueue.get / item_done                 *)

\* queue.get(): park when empty; otherwise pop the minimum, notify_all, and - for an item -
\* run straight into the first task (begin of task 1 is in the same await-free block)
WGet(w) ==
  /\ wpc[w] = "get"
  /\ IF q = {}
     THEN /\ wpc' = [wpc EXCEPT ![w] = "parked"] /\ UNCHANGED <<q, witem, wtask, ppc, began, lateBegin>>
     ELSE LET e == MinEntry(q) IN
          /\ q' = q \ {e}
          /\ ppc' = Notified(ppc)
          /\ IF e[3] = PILL
             THEN /\ wpc' = [wpc EXCEPT ![w] = "exited"] /\ UNCHANGED <<witem, wtask, began, lateBegin>>
             ELSE /\ wpc' = [wpc EXCEPT ![w] = "body"]
                  /\ witem' = [witem EXCEPT ![w] = e[3]] /\ wtask' = [wtask EXCEPT ![w] = 1]
                  /\ began' = [began EXCEPT ![1][e[3]] = IF @ < 2 THEN @ + 1 ELSE @]
                  /\ lateBegin' = (lateBegin \/ stops > 0)
  /\ UNCHANGED <<ec, unfinished, closed, src, held, prun, pexc, pstopped>>
  /\ UNCHANGED <<mvars, budvars>>
  /\ UNCHANGED <<ended, orderOK, supplied, returned, raised>>

\* environment: the body of the task finishes
BodyDone(w) ==
  /\ wpc[w] = "body"
  /\ LET j == wtask[w]
         i == witem[w] IN
       /\ ended' = [ended EXCEPT ![j][i] = IF @ < 2 THEN @ + 1 ELSE @]
       /\ IF j < T
          THEN /\ wtask' = [wtask EXCEPT ![w] = j + 1] /\ UNCHANGED wpc    \* straight into task j+1
               /\ began' = [began EXCEPT ![j + 1][i] = IF @ < 2 THEN @ + 1 ELSE @]
          ELSE /\ wpc' = [wpc EXCEPT ![w] = "fin"] /\ UNCHANGED <<wtask, began>>
  /\ UNCHANGED witem
  /\ UNCHANGED <<qvars, pvars, mvars, budvars>>
  /\ UNCHANGED <<orderOK, supplied, returned, lateBegin, raised>>

\* environment: the body of the task raises -> the worker task ends with an exception
BodyRaise(w) ==
  /\ wpc[w] = "body" /\ raises < MaxRaise
  /\ raises' = raises + 1 /\ raised' = TRUE
  /\ wpc' = [wpc EXCEPT ![w] = "crashed"]
  /\ UNCHANGED <<witem, wtask>>
  /\ UNCHANGED <<qvars, pvars, mvars, stops, concs>>
  /\ UNCHANGED <<began, ended, orderOK, supplied, returned, lateBegin>>

\* ItemQueue.item_done: unfinished -= 1; notify_all
ItemDone(w) ==
  /\ wpc[w] = "fin"
  /\ unfinished' = unfinished - 1
  /\ ppc' = Notified(ppc)
  /\ wpc' = [wpc EXCEPT ![w] = "get"] /\ witem' = [witem EXCEPT ![w] = 0] /\ wtask' = [wtask EXCEPT ![w] = 0]
  /\ UNCHANGED <<q, ec, closed, src, held, prun, pexc, pstopped>>
  /\ UNCHANGED <<mvars, obsvars, budvars>>

-----------------------------------------------------------------------------
(* Pipeline.process / _process_one_worker / _shutdown_processing            *)

\* while state == running: create workers up to concurrency, then wait (or wait for un-pause)
MLoop ==
  /\ mpc = "loop"
  /\ IF pstate = "running"
     THEN LET need == IF conc > Cardinality(wtasks) THEN conc - Cardinality(wtasks) ELSE 0 IN
          /\ \E new \in SUBSET (Workers \ wtasks) :
                /\ Cardinality(new) = need
                /\ \A w \in new : wpc[w] = "none"
                /\ wtasks' = wtasks \cup new
                /\ wpc' = [w \in Workers |-> IF w \in new THEN "get" ELSE wpc[w]]
          /\ mpc' = IF wtasks' # {} THEN "waiting" ELSE "paused"
     ELSE /\ mpc' = "shut_workers" /\ UNCHANGED <<wtasks, wpc>>
  /\ UNCHANGED <<witem, wtask, pstate, conc, unpaused>>
  /\ UNCHANGED <<qvars, pvars, obsvars, budvars>>

\* asyncio.wait(FIRST_COMPLETED) returns; task.result() re-raises a worker's exception
MWake ==
  /\ mpc = "waiting"
  /\ \E w \in wtasks : wpc[w] \in {"exited", "crashed"}
  /\ LET done == {w \in wtasks : wpc[w] \in {"exited", "crashed"}} IN
       IF \E w \in done : wpc[w] = "crashed"
       THEN /\ mpc' = "error" /\ returned' = "error" /\ UNCHANGED <<wtasks, wpc>>
       ELSE /\ wtasks' = wtasks \ done
            /\ wpc' = [w \in Workers |-> IF w \in done THEN "none" ELSE wpc[w]]
            /\ mpc' = "loop" /\ UNCHANGED returned
  /\ UNCHANGED <<witem, wtask, pstate, conc, unpaused>>
  /\ UNCHANGED <<qvars, pvars, budvars>>
  /\ UNCHANGED <<began, ended, orderOK, supplied, lateBegin, raised>>

\* _unpaused_event.wait() returns
MUnpause ==
  /\ mpc = "paused" /\ unpaused
  /\ mpc' = "loop"
  /\ UNCHANGED <<wtasks, pstate, conc, unpaused>>
  /\ UNCHANGED <<qvars, pvars, wvars, obsvars, budvars>>

\* _shutdown_processing: asyncio.wait(all workers) (exceptions of workers are not collected here)
MShutWorkers ==
  /\ mpc = "shut_workers"
  /\ \A w \in wtasks : wpc[w] \in {"exited", "crashed"}
  \* asyncio.wait(worker_tasks) never looks at the tasks' exceptions; the repaired code collects the first one
  /\ wtasks' = {}
  /\ mpc' = IF FixShutErr /\ \E w \in wtasks : wpc[w] = "crashed" THEN "shut_producer_err" ELSE "shut_producer"
  /\ wpc' = [w \in Workers |-> IF w \in wtasks THEN "none" ELSE wpc[w]]
  \* repaired code: release a producer that is parked on the condition (nobody is left to notify it)
  /\ IF FixStopWake
     THEN closed' = TRUE /\ ppc' = Notified(ppc)
     ELSE UNCHANGED <<closed, ppc>>
  /\ UNCHANGED <<q, ec, unfinished, src, held, prun, pexc, pstopped, witem, wtask, pstate, conc, unpaused>>
  /\ UNCHANGED <<obsvars, budvars>>

\* yield from self._producer_task
MShutProducer ==
  /\ mpc \in {"shut_producer", "shut_producer_err"} /\ ppc = "done"
  /\ IF pexc \/ mpc = "shut_producer_err" THEN mpc' = "error" /\ returned' = "error" /\ UNCHANGED pstate
             ELSE mpc' = "returned" /\ returned' = "ok" /\ pstate' = "stopped"
  /\ UNCHANGED <<wtasks, conc, unpaused>>
  /\ UNCHANGED <<qvars, pvars, wvars, budvars>>
  /\ UNCHANGED <<began, ended, orderOK, supplied, lateBegin, raised>>

-----------------------------------------------------------------------------
(* Environment disturbances                                                 *)

\* Pipeline.stop() called from outside (Application.stop / SIGINT path)
Stop ==
  /\ stops < MaxStop /\ returned = "no"
  /\ stops' = stops + 1
  /\ IF pstate = "running"
     THEN StopBody
     ELSE UNCHANGED <<pstate, prun, pstopped, q, ec, wpc, unpaused>>
  /\ UNCHANGED <<unfinished, closed, src, ppc, held, pexc, witem, wtask, wtasks, mpc, conc>>
  /\ UNCHANGED <<obsvars, concs, raises>>

\* Pipeline.concurrency = c
SetConc(c) ==
  /\ concs < MaxConc /\ returned = "no" /\ c # conc
  /\ concs' = concs + 1
  /\ conc' = c
  /\ IF pstate # "running"
     THEN UNCHANGED <<q, ec, wpc, unpaused>>
     ELSE LET n == IF c < conc THEN conc - c ELSE 1 IN
          /\ q' = q \cup Pills(n) /\ ec' = ec + n
          /\ PutWakeN(wpc, wpc', n)
          /\ unpaused' = (c > 0)
  /\ UNCHANGED <<unfinished, closed, pvars, witem, wtask, wtasks, mpc, pstate>>
  /\ UNCHANGED <<obsvars, stops, raises>>

-----------------------------------------------------------------------------
SysNext ==
  \/ PStart \/ PLoop \/ PPut \/ PExit
  \/ SrcReturn
  \/ \E w \in Workers : WGet(w) \/ BodyDone(w) \/ ItemDone(w)
  \/ MLoop \/ MWake \/ MUnpause \/ MShutWorkers \/ MShutProducer

EnvNext ==
  \/ Stop \/ (\E c \in 0..CMax : SetConc(c))
  \/ SrcRaise \/ (\E w \in Workers : BodyRaise(w))

Next == SysNext \/ EnvNext

Spec == Init /\ [][Next]_vars /\ WF_vars(SysNext)

-----------------------------------------------------------------------------
(* Properties (all over observation variables, plus budgets)                *)

UnfinishedOK == unfinished >= 0

\* quiescence of the system with the environment having answered everything = a hang,
\* unless the pipeline is legitimately paused (concurrency 0, no stop requested, nothing failed)
Terminal == mpc \in {"returned", "error"}
LegitPaused == conc = 0 /\ stops = 0 /\ ~raised /\ pstate = "running"
NoHang == (~ENABLED SysNext) => (Terminal \/ LegitPaused)

Finishes == <>(Terminal \/ LegitPaused)
StopReturns == (stops > 0) ~> Terminal

TypeOK ==
  /\ unfinished \in 0..(K + 1) /\ src \in 1..(K + 1) /\ conc \in 0..CMax
  /\ ppc \in {"start", "get", "src", "put", "put_wait", "ww_wait", "exit", "exit_exc", "done"}
  /\ \A w \in Workers : wpc[w] \in {"none", "get", "parked", "body", "fin", "exited", "crashed"}
  /\ mpc \in {"loop", "waiting", "paused", "shut_workers", "shut_producer", "shut_producer_err", "returned", "error"}
=============================================================================
