------------------------------ MODULE Decoder ------------------------------
(***************************************************************************)
(* C19.  Implementation-shaped model of wpull's streaming content decoders *)
(*   wpull/decompression.py   GzipDecompressor, DeflateDecompressor        *)
(*   wpull/protocol/http/stream.py  Stream._setup_decompressor,            *)
(*                            _decompress_data, _flush_decompressor        *)
(* fed an encoded body in pieces (one piece = one read of the connection). *)
(*                                                                         *)
(* zlib itself is NOT modelled: a `zlib.decompressobj(mode)` is abstracted *)
(* by what it does with a given body (the body's PROFILE):                 *)
(*   E[mode]   it raises at the first moment its accumulated input reaches *)
(*             E[mode] bytes (0 = never)                                   *)
(*   F[mode]   it reports eof once it has consumed F[mode] bytes (0=never) *)
(*   emit[mode][k+1]  number of output tokens it has returned after k      *)
(*             bytes of input (zlib returns everything it can: the value   *)
(*             does not depend on how the k bytes were cut - measured)     *)
(* In the design check the profiles are generated structurally (header,    *)
(* payload, trailer, truncation point, corruption point, foreign format);  *)
(* in DecoderGen / DecoderTrace they are measured on real zlib-produced    *)
(* bodies by a reference probe and read from a JSON file.                  *)
(*                                                                         *)
(* One action = one call of the decoder: Feed(n) (decompress of the next   *)
(* n bytes), Flush.                                                        *)
(* Observation variables: out, err, phase.                                 *)
(***************************************************************************)
EXTENDS Naturals, Sequences, FiniteSets, TLC

CONSTANTS FixFallback,   \* TRUE: repaired DeflateDecompressor (input replayed into a raw inflater when the
                         \*       zlib candidate fails before having returned any output)
          FixEof,        \* TRUE: repaired flush(): an unfinished compressed stream is an error
          StrictTrailer  \* FALSE (lenient reading): a stream cut inside its trailer, all content already
                         \*       delivered, may end either way

Modes == {"gzip", "zlib", "raw"}

VARIABLES
  prof,     \* profile of the encoded body (constant during a behaviour)
  dec,      \* "gzip" | "deflate" | "none"   (Content-Encoding -> decoder class)
  path,     \* "class": the decompressor class is called directly; "stream": through Stream (zlib.error -> ProtocolError)
  pos,      \* bytes fed so far
  checked,  \* GzipDecompressor.checked / DeflateDecompressor.decompressobj is not None
  mode,     \* "none" | "pass" | "gzip" | "zlib" | "raw": what the decoder has settled on
  out,      \* <<m, k>>: the caller has received the first k output tokens of the mode-m decoding ("pass": the body itself)
  err,      \* "none" | "zlib" | "protocol"
  phase     \* "feed" | "flushed" | "failed"

vars == <<prof, dec, path, pos, checked, mode, out, err, phase>>

-----------------------------------------------------------------------------
(* the abstracted zlib object                                               *)
Raises(m, k) == prof.E[m] # 0 /\ prof.E[m] <= k
Tok(m, k)    == prof.emit[m][k + 1]
Eof(m, k)    == prof.F[m] # 0 /\ prof.F[m] <= k

-----------------------------------------------------------------------------
(* Reference: decoding the whole body at once (one piece, then flush), with *)
(* an unfinished stream being an error.  A set of acceptable outcomes.      *)
Finish(m) ==
  LET n == prof.n IN
  IF Raises(m, n) THEN {<<"error">>}
  ELSE IF Eof(m, n) THEN {<<"ok", m, Tok(m, n)>>}
  ELSE IF ~StrictTrailer /\ m = prof.own /\ Tok(m, n) = prof.full
       THEN {<<"ok", m, Tok(m, n)>>, <<"error">>}      \* only the trailer / end marker is missing
       ELSE {<<"error">>}

Accept ==
  LET n == prof.n IN
  IF n = 0 THEN {<<"ok", "none", 0>>}                      \* an empty body decodes to nothing
  ELSE IF dec = "none" THEN {<<"ok", "pass", n>>}
  ELSE IF dec = "gzip"
       THEN IF prof.first1f THEN Finish("gzip") ELSE {<<"ok", "pass", n>>}
       ELSE IF Raises("zlib", n) THEN Finish("raw") ELSE Finish("zlib")

Outcome == IF phase = "flushed" THEN <<"ok", out[1], out[2]>>
           ELSE IF phase = "failed" THEN <<"error">> ELSE <<"running">>

-----------------------------------------------------------------------------
InitWith(p, d, pa) ==
  /\ prof = p /\ dec = d /\ path = pa
  /\ pos = 0 /\ checked = FALSE /\ mode = "none" /\ out = <<"none", 0>> /\ err = "none" /\ phase = "feed"

Fail == /\ phase' = "failed" /\ err' = (IF path = "stream" THEN "protocol" ELSE "zlib") /\ UNCHANGED out

\* the settled object consumes up to byte k
ObjStep(m, k) == IF Raises(m, k) THEN Fail
                 ELSE out' = <<m, Tok(m, k)>> /\ UNCHANGED <<err, phase>>

Pass(k) == out' = <<"pass", k>> /\ UNCHANGED <<err, phase>>

\* GzipDecompressor.decompress
GzipFeed(n) ==
  IF ~checked
  THEN /\ checked' = TRUE
       /\ IF prof.first1f THEN mode' = "gzip" /\ ObjStep("gzip", pos + n)
                          ELSE mode' = "pass" /\ Pass(pos + n)
  ELSE /\ UNCHANGED <<checked, mode>>
       /\ IF mode = "gzip" THEN ObjStep("gzip", pos + n) ELSE Pass(pos + n)

\* DeflateDecompressor.decompress.  The first call tries a zlib inflater and falls back to a raw one only
\* if THAT call raises (the raw inflater is then fed the same piece).
\* Repaired: the input is kept as long as the zlib candidate has returned nothing; if it fails during that
\* time everything kept is replayed into a raw inflater.
Undecided == mode = "zlib" /\ Tok("zlib", pos) = 0
DeflateFeed(n) ==
  IF ~checked \/ (FixFallback /\ Undecided)
  THEN /\ checked' = TRUE
       /\ IF Raises("zlib", pos + n)
          THEN mode' = "raw" /\ ObjStep("raw", pos + n)
          ELSE mode' = "zlib" /\ out' = <<"zlib", Tok("zlib", pos + n)>> /\ UNCHANGED <<err, phase>>
  ELSE UNCHANGED <<checked, mode>> /\ ObjStep(mode, pos + n)

Feed(n) ==
  /\ phase = "feed" /\ n >= 1 /\ pos + n <= prof.n
  /\ pos' = pos + n
  /\ CASE dec = "none"    -> Pass(pos + n) /\ UNCHANGED <<checked, mode>>
       [] dec = "gzip"    -> GzipFeed(n)
       [] dec = "deflate" -> DeflateFeed(n)
  /\ UNCHANGED <<prof, dec, path>>

\* flush() of the decoder (zlib's flush returns nothing more: decompress already returned all it could)
Flush ==
  /\ phase = "feed" /\ pos = prof.n
  /\ IF FixEof /\ mode \in Modes /\ ~Eof(mode, pos)
     THEN Fail
     ELSE phase' = "flushed" /\ UNCHANGED <<out, err>>
  /\ UNCHANGED <<prof, dec, path, pos, checked, mode>>

FeedAny == \E n \in 1..(prof.n - pos) : Feed(n)
Next == FeedAny \/ Flush

-----------------------------------------------------------------------------
(* Structural profiles for the design check.                                *)
(* Abstract formats: gzip = 3 header bytes (2 magic + 1) + payload + 2      *)
(* trailer bytes; zlib = 2 + payload + 1; raw = 1 (block header) + payload; *)
(* identity.  One payload byte = one output token.                          *)
CONSTANTS MaxP      \* payload tokens 1..MaxP

Hd(f) == CASE f = "gzip" -> 3 [] f = "zlib" -> 2 [] f = "raw" -> 1
Tr(f) == CASE f = "gzip" -> 2 [] f = "zlib" -> 1 [] f = "raw" -> 0
HC(m) == CASE m = "gzip" -> 2 [] m = "zlib" -> 2 [] m = "raw" -> 1   \* bytes a mode needs to reject a foreign body

Min(a, b) == IF a < b THEN a ELSE b
Max(a, b) == IF a > b THEN a ELSE b
Zeros(n)  == [k \in 1..(n + 1) |-> 0]
OwnEmit(f, P, n) == [k \in 1..(n + 1) |-> Min(Max((k - 1) - Hd(f), 0), P)]

\* a compressed body of format f, payload P, delivered length t (t < L: truncated); eo: where its own inflater
\* notices a corruption (0: never); fin: its own inflater sees the end marker; zE/zG: how a zlib inflater treats
\* a raw body (where it raises / whether it returns output before that); rE: where a raw inflater rejects it
Params ==
  { q \in [f : Modes, P : 1..MaxP, t : 0..(3 + MaxP + 2), eo : 0..(3 + MaxP + 2), zE : 0..(1 + MaxP),
           zG : BOOLEAN, rE : {1, 3}, fin : BOOLEAN,
           cl : {"intact", "trunc", "corrupt", "zlibish", "zlibish_emit"}] :
      LET f == q.f  P == q.P  t == q.t  eo == q.eo  zE == q.zE  zG == q.zG  rE == q.rE  fin == q.fin  cl == q.cl
          L == Hd(f) + P + Tr(f) IN
      /\ t <= L /\ eo <= L
      /\ (cl = "intact")  => (t = L /\ eo = 0 /\ fin /\ zE = 2 /\ ~zG)
      /\ (cl = "trunc")   => (t < L /\ eo = 0 /\ fin /\ zE = 2 /\ ~zG)
      \* corruption at some byte c <= eo: noticed between c and L (a checksummed format notices at L at the latest;
      \* raw deflate may not notice at all, or may just never see its end marker)
      /\ (cl = "corrupt") => (t = L /\ zE = 2 /\ ~zG
                              /\ (eo = 0 => f = "raw") /\ (eo # 0 => eo >= HC(f) /\ fin) /\ (~fin => f = "raw"))
      \* a raw deflate body whose first two bytes pass the zlib header check: the zlib inflater fails later or never
      /\ (cl = "zlibish") => (f = "raw" /\ t = L /\ eo = 0 /\ fin /\ zE # 1 /\ zE # 2 /\ zE <= L /\ ~zG)
      /\ (cl = "zlibish_emit") => (f = "raw" /\ t = L /\ eo = 0 /\ fin /\ zE \notin {1, 2, 3} /\ zE <= L /\ zG)
      /\ (f # "raw") => (zE = 2 /\ ~zG)
      /\ (f = "raw") => rE = 1 }

Mk(q) ==
  LET f == q.f  P == q.P  t == q.t IN
  [n |-> t, own |-> f, full |-> P, first1f |-> (f = "gzip"), cls |-> q.cl,
   E |-> [m \in Modes |-> IF m = f THEN q.eo
                          ELSE IF m = "zlib" /\ f = "raw" THEN q.zE
                          ELSE IF m = "raw" THEN q.rE ELSE HC(m)],
   F |-> [m \in Modes |-> IF m = f /\ t = Hd(f) + P + Tr(f) /\ q.eo = 0 /\ q.fin THEN t ELSE 0],
   emit |-> [m \in Modes |-> IF m = f THEN OwnEmit(f, P, t)
                             ELSE IF m = "zlib" /\ f = "raw" /\ q.zG THEN [k \in 1..(t + 1) |-> IF k > 3 THEN 1 ELSE 0]
                             ELSE Zeros(t)]]

Compressed == { Mk(q) : q \in Params }

IdParams == { q \in [t : 0..3, b : BOOLEAN, rE : {1, 3}] : (q.t = 0 => ~q.b) }
Identity ==
  { [n |-> q.t, own |-> "pass", full |-> q.t, first1f |-> q.b, cls |-> "identity",
     E |-> [m \in Modes |-> IF m = "raw" THEN q.rE ELSE 2], F |-> [m \in Modes |-> 0],
     emit |-> [m \in Modes |-> Zeros(q.t)]] : q \in IdParams }

Profiles == Compressed \cup Identity

Init == \E p \in Profiles, d \in {"gzip", "deflate", "none"}, pa \in {"class", "stream"} : InitWith(p, d, pa)

Spec == Init /\ [][Next]_vars

-----------------------------------------------------------------------------
(* Properties (C19)                                                         *)
Ended == phase \in {"flushed", "failed"}

\* every way of cutting the body ends like decoding it at once
SplitIndependent == Ended => Outcome \in Accept
\* ... stated as separate clauses
NoSpuriousError == phase = "failed" => <<"error">> \in Accept
OutputEqual     == (phase = "flushed" /\ Accept # {<<"error">>}) => Outcome \in Accept
ErrorReported   == phase = "flushed" => Accept # {<<"error">>}
ErrorClass      == err = (IF phase = "failed" THEN (IF path = "stream" THEN "protocol" ELSE "zlib") ELSE "none")

\* The unchanged tree violates C19 in exactly two ways (DESIGN section 6, findings 12 and 13); the model
\* describes the code as it is, and these invariants state that there is no OTHER way:
\*  12: the zlib candidate of DeflateDecompressor was kept after the first piece and raised later
Defect12 == dec = "deflate" /\ mode = "zlib" /\ Raises("zlib", pos)
\*  13: flush() does not look at eof
Defect13 == mode \in Modes /\ ~Eof(mode, pos)
\*  residue of the proposed repair of 12: a raw deflate body that a zlib inflater decodes into some output
\*  before failing (the kept input has been dropped by then)
Residue12 == Defect12 /\ Tok("zlib", pos) > 0

AsIsNoSpuriousError == (phase = "failed" /\ <<"error">> \notin Accept)
                          => IF FixFallback THEN Residue12 ELSE Defect12
AsIsFlushed         == (phase = "flushed" /\ Outcome \notin Accept) => (~FixEof /\ Defect13)
\* and both defects are reachable in the as-is model (vacuity guards, checked as "invariants" expected to FAIL
\* are not used: reachability is shown by the action coverage + the Mon verdicts on the real code)

TypeOK ==
  /\ pos \in 0..prof.n /\ phase \in {"feed", "flushed", "failed"} /\ err \in {"none", "zlib", "protocol"}
  /\ mode \in {"none", "pass", "gzip", "zlib", "raw"} /\ out[1] \in {"none", "pass", "gzip", "zlib", "raw"}
  /\ ErrorClass
=============================================================================
