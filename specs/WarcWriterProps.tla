--------------------------- MODULE WarcWriterProps ---------------------------
(***************************************************************************)
(* C05 / C06 / C07 as predicates over an ABSTRACT VIEW of a directory:     *)
(*   D : file id -> sequence of members                                    *)
(*   J : file id -> [st : "absent" | "empty" | "bad" | "offset", n : Nat]  *)
(*   L : sequence of CDX lines                                             *)
(* A member is a record with (at least) the fields                         *)
(*   ok   the bytes are one complete, well delimited record (one complete  *)
(*        gzip member when compressed)                                     *)
(*   len  length in bytes in the file                                      *)
(*   ty   WARC-Type          rid  record id          wid  WARC-Warcinfo-ID *)
(*   pdo  byte range covered by the payload digest: "none" (no such        *)
(*        field) | "wire" (exactly the bytes after the HTTP header block   *)
(*        as received) | "other"                                           *)
(*   tr   (revisit) where the block was cut: "wire" | "other" | "na"       *)
(* A CDX line: [rid, f, off, len, hdr] - hdr: status code and media type   *)
(* equal those of the archived response.                                   *)
(* The same operators are evaluated on the model's own state               *)
(* (WarcWriter.tla) and on the projection of the files the real code wrote *)
(* (WarcWriterMon.tla).  No variables here.                                *)
(***************************************************************************)
EXTENDS Naturals, Sequences, FiniteSets

RECURSIVE SumLen(_, _)
SumLen(ms, k) == IF k = 0 THEN 0 ELSE SumLen(ms, k - 1) + ms[k].len

Size(ms) == SumLen(ms, Len(ms))
Offset(ms, i) == SumLen(ms, i - 1)

ValidSeq(ms) == \A i \in 1..Len(ms) : ms[i].ok

\* the first n bytes are a valid record sequence
PrefixValid(ms, n) ==
  \E k \in 0..Len(ms) : SumLen(ms, k) = n /\ \A i \in 1..k : ms[i].ok

(* ---- C06 ---- *)
\* what a process death leaves behind can always be repaired from the journal
CrashOK(D, J, F) ==
  \A f \in F : ValidSeq(D[f]) \/ (J[f].st = "offset" /\ PrefixValid(D[f], J[f].n))

\* a journal with an offset exists only for the archive being appended to and names its length before the append
JournalNamesOK(J, F, cf, before) == \A f \in F : J[f].st = "offset" => (f = cf /\ J[f].n = Size(before))

\* after a handled I/O error (cls = class of the failing operation; the journal's own unlink is waived: if the
\* unlink is what fails the journal cannot be gone, and the record is complete)
\* (an error while the line of the record is added to the CDX index is an error of the append too)
FaultContentOK(cls, before, after) == cls \in {"journal", "archive", "cdx"} => after = before
FaultJournalOK(cls, j)            == cls \in {"journal", "archive", "cdx"} => j.st = "absent"

(* ---- C05 ---- *)
AllMembers(D, F) == UNION {{<<f, i>> : i \in 1..Len(D[f])} : f \in F}

IdsUnique(D, F) ==
  \A a, b \in AllMembers(D, F) :
     (D[a[1]][a[2]].ok /\ D[b[1]][b[2]].ok /\ a # b) => D[a[1]][a[2]].rid # D[b[1]][b[2]].rid

\* every record points at the warcinfo record of its file: the latest warcinfo record at or before it
\* (a file that was appended to by a later run has one warcinfo record per run)
WarcinfoPtrOK(ms) ==
  \A i \in 1..Len(ms) :
     ms[i].ok =>
       \E k \in 1..i : /\ ms[k].ty = "warcinfo" /\ ms[k].rid = ms[i].wid
                       /\ \A q \in (k + 1)..i : ms[q].ty # "warcinfo"

PayloadRangeOK(ms) == \A i \in 1..Len(ms) : ms[i].ok => ms[i].pdo \in {"none", "wire"}
RevisitCutOK(ms)   == \A i \in 1..Len(ms) : (ms[i].ok /\ ms[i].ty = "revisit") => ms[i].tr = "wire"

(* ---- C07 ---- *)
RespMembers(D, F) == {a \in AllMembers(D, F) : D[a[1]][a[2]].ok /\ D[a[1]][a[2]].ty = "response"}

LinesOf(D, L, a) == {j \in 1..Len(L) : L[j].rid = D[a[1]][a[2]].rid}

CdxOnePerResponse(D, F, L) == \A a \in RespMembers(D, F) : Cardinality(LinesOf(D, L, a)) = 1
CdxNoStrayLine(D, F, L)    == \A j \in 1..Len(L) : \E a \in RespMembers(D, F) : D[a[1]][a[2]].rid = L[j].rid
CdxAddressOK(D, F, L) ==
  \A a \in RespMembers(D, F) : \A j \in LinesOf(D, L, a) :
     L[j].f = a[1] /\ L[j].off = Offset(D[a[1]], a[2]) /\ L[j].len = D[a[1]][a[2]].len
CdxHeaderOK(L) == \A j \in 1..Len(L) : L[j].hdr
=============================================================================
