---------------------------- MODULE AppSeriesMon ----------------------------
(***************************************************************************)
(* Observation monitor for the application layer of C13: folds the events  *)
(* recorded from the real Application / PipelineSeries / Pipeline objects   *)
(* with Obs(e) of AppSeriesProps and evaluates every property clause at     *)
(* every step.  No assumption about internals: this decides VIOLATION (the  *)
(* strict spec AppSeriesTrace decides DRIFT).                               *)
(***************************************************************************)
EXTENDS AppSeriesProps, Json, IOUtils, TLCExt

Batch == JsonDeserialize(IOEnv.TRACE_FILE)
NT    == Len(Batch)

VARIABLES tid, l
mvars == <<cfgvars, obsvars, tid, l>>

Ev  == Batch[tid].ev
Cur == Ev[l]

MInit ==
  /\ tid \in 1..NT /\ l = 1
  /\ np = Batch[tid].np /\ tt = Batch[tid].tt
  /\ skp = [p \in 1..Batch[tid].np |-> Batch[tid].skp[p]]
  /\ reg = [p \in 1..Batch[tid].np |-> Batch[tid].reg[p]]
  /\ kk  = [p \in 1..Batch[tid].np |-> Batch[tid].kk[p]]
  /\ ObsInit([p \in 1..Batch[tid].np |-> Batch[tid].pc0[p]])

MNext ==
  /\ l <= Len(Ev) /\ l' = l + 1 /\ UNCHANGED <<tid, cfgvars>>
  /\ Obs(Cur)

MSpec == MInit /\ [][MNext]_mvars

ASSUME \A i \in 1..(2 * NT) : TLCSet(i, 0)

\* The series the application really builds (header field "work", recorded from wpull.application.builder): a pipeline
\* whose source hands out work from outside - the URL table, the queued files - must be skippable.  Non-skippable
\* pipelines run completely after a stop (CompleteRuns: that is what clean-up pipelines need); for one that fetches, a stop
\* arriving before it begins would be followed by all of its work.
WorkStopsWithTheApplication ==
  "work" \in DOMAIN Batch[tid] => \A p \in 1..Batch[tid].np : Batch[tid].work[p] => Batch[tid].skp[p]

BadClause ==
  IF ~WorkStopsWithTheApplication THEN 17 ELSE
  IF ~SeriesOrder THEN 1 ELSE IF ~ItemsInsidePipeline THEN 2 ELSE IF ~ItemOrder THEN 3
  ELSE IF ~NoTakeAfterStop THEN 4 ELSE IF ~NoBeginAfterStop THEN 5 ELSE IF ~SkippedAfterStop THEN 6
  ELSE IF ~NothingAfterFailure THEN 9 ELSE IF ~NoHangObs THEN 12 ELSE IF ~NoCrashObs THEN 13
  ELSE IF ~RunOnce THEN 16 ELSE IF ~ConcFollow THEN 14 ELSE IF ~ConcBound THEN 15
  ELSE IF ~InFlightFinish THEN 7 ELSE IF ~CompleteRuns THEN 8
  ELSE IF ~ExitCodeMapped THEN 10 ELSE IF ~CrashMessage THEN 11 ELSE 0

Record ==
  /\ IF TLCGet(tid) < l THEN TLCSet(tid, l) ELSE TRUE
  /\ IF BadClause # 0 /\ TLCGet(NT + tid) = 0 THEN TLCSet(NT + tid, BadClause * 100000 + l) ELSE TRUE

Post == PrintT(<<"VERDICTS_BEGIN",
                 [i \in 1..NT |-> <<TLCGet(i) - 1, TLCGet(NT + i) \div 100000, TLCGet(NT + i) % 100000>>],
                 "VERDICTS_END">>)
=============================================================================
