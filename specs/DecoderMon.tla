----------------------------- MODULE DecoderMon -----------------------------
(***************************************************************************)
(* Observation monitor for C19.  Folds the events recorded while the real  *)
(* GzipDecompressor / DeflateDecompressor / Stream.read_body consumed one  *)
(* body in pieces into  out (the bytes handed to the caller), err, phase   *)
(* and evaluates every clause of the property at every step against the    *)
(* one-shot reference.  Nothing about the decoder's internals is assumed:  *)
(* this decides VIOLATION (DecoderTrace decides DRIFT).                    *)
(*                                                                         *)
(* Per trace:  dec, path, quirk1f,                                         *)
(*   ref = [ok, raised, complete, out]: the whole body decoded at once by  *)
(*   zlib in the driver's projection (ok: decoded and the stream ended;    *)
(*   raised: zlib rejected it; complete: not ended, but every byte of the  *)
(*   content was produced - only the trailer / end marker is missing;      *)
(*   out: the bytes, as a sequence of 0..255)                              *)
(* events: [e |-> "piece", n, out, err] / [e |-> "flush", out, err] /      *)
(*         [e |-> "end", err, total]  (the call as a whole returned/raised)*)
(***************************************************************************)
EXTENDS Naturals, Sequences, TLC, Json, IOUtils, TLCExt

CONSTANT StrictTrailer

Batch == JsonDeserialize(IOEnv.TRACE_FILE)
NT    == Len(Batch)

VARIABLES tid, l, out, err, phase, fed
mvars == <<tid, l, out, err, phase, fed>>

T   == Batch[tid]
Ev  == T.ev
Cur == Ev[l]

MInit == tid \in 1..NT /\ l = 1 /\ out = <<>> /\ err = "none" /\ phase = "feed" /\ fed = 0

MNext ==
  /\ l <= Len(Ev) /\ l' = l + 1 /\ UNCHANGED tid
  /\ LET e == Cur IN
     /\ out' = IF e.e = "end" THEN e.total ELSE out \o e.out      \* at the end: what the caller's file holds
     /\ err' = IF err = "none" THEN e.err ELSE err
     /\ fed' = IF e.e = "piece" THEN fed + e.n ELSE fed
     /\ phase' = IF phase \in {"ended", "after_end"} THEN "after_end"    \* events after the end: malformed recording
                 ELSE IF e.err # "none" THEN "failed"
                 ELSE IF phase = "failed" THEN (IF e.e = "end" THEN "after_end" ELSE "failed")  \* a failure must stay one
                 ELSE IF e.e = "end" THEN "ended"                     \* the call returned normally
                 ELSE IF phase = "feed" /\ e.e = "flush" THEN "flushed"
                 ELSE IF phase = "feed" /\ e.e = "piece" THEN "feed" ELSE "after_end"

MSpec == MInit /\ [][MNext]_mvars

-----------------------------------------------------------------------------
(* C19 over the observation                                                 *)
AccOk  == T.ref.ok \/ (~StrictTrailer /\ ~T.ref.raised /\ T.ref.complete)
\* quirk1f: an identity body under Content-Encoding: gzip whose first byte is 0x1f but which has no gzip magic:
\* the class documents "2 byte magic" and sniffs one; both readings are accepted
AccErr == ~T.ref.ok \/ T.quirk1f

NoSpuriousError == phase = "failed" => AccErr
Finished        == phase \in {"flushed", "ended"}
\* (big bodies - megabytes of output - are recorded run-length encoded, <<octet, count>> pairs in normal form, and
\* only as the total the caller's file holds at the end; the pieces' own outputs are not listed)
Big             == "big" \in DOMAIN T /\ T.big
OutputEqual     == (Finished /\ AccOk) => (IF Big THEN (phase = "ended" => out = T.ref.out) ELSE out = T.ref.out)
ErrorReported   == Finished => AccOk
ErrorClass      == err \in {"none", IF T.path = "stream" THEN "protocol" ELSE "zlib"}
WholeBodyFed    == Finished => fed = T.n
WellFormed      == phase # "after_end"

ASSUME \A i \in 1..(2 * NT) : TLCSet(i, 0)

BadClause ==
  IF ~NoSpuriousError THEN 1 ELSE IF ~OutputEqual THEN 2 ELSE IF ~ErrorReported THEN 3
  ELSE IF ~ErrorClass THEN 4 ELSE IF ~WholeBodyFed THEN 5 ELSE IF ~WellFormed THEN 6 ELSE 0

Record ==
  /\ IF TLCGet(tid) < l THEN TLCSet(tid, l) ELSE TRUE
  /\ IF BadClause # 0 /\ TLCGet(NT + tid) = 0 THEN TLCSet(NT + tid, BadClause * 100000 + l) ELSE TRUE

Post == PrintT(<<"VERDICTS_BEGIN",
                 [i \in 1..NT |-> <<TLCGet(i) - 1, TLCGet(NT + i) \div 100000, TLCGet(NT + i) % 100000>>],
                 "VERDICTS_END">>)
=============================================================================
