------------------------------ MODULE URLTable ------------------------------
(***************************************************************************)
(* Sequential reference model of wpull/database/sqltable.py                *)
(* (BaseSQLURLTable / SQLiteURLTable over the schema of sqlmodel.py) and   *)
(* of the counters of wpull/database/wrap.py (URLTableHookWrapper), as the *)
(* code executes on this interpreter (SQLAlchemy 2.0 through the compat    *)
(* shim).  One action = one public call = one transaction.                 *)
(*                                                                         *)
(* Internal state: the row store is `tab` (URL -> row, also the projection *)
(* observed through get_all) plus `ids` (URL -> queued_urls.id; SQLite     *)
(* rowids without AUTOINCREMENT: max+1, reused after a removal), `strs`    *)
(* (url_strings in id order: URLs, parents, roots - never deleted),        *)
(* `hosts` (hostnames in id order - never deleted), `files` (queued_files: *)
(* id -> [qid, st]), `visits` (warc_visits: first visit per URL wins),     *)
(* `qc` (URLTableHookWrapper._queue_counter).                              *)
(*                                                                         *)
(* The three switches describe repairs proposed for defects of the code;   *)
(* FALSE = the code as it is in the unchanged tree.                        *)
(***************************************************************************)
EXTENDS URLTableProps

CONSTANTS
  FixBind,         \* add_many always binds parent_url / root_url (no StatementError)
  FixFileId,       \* check_in stores queued_urls.id (not url_strings.id) in queued_files.queued_url_id
  FixRemoveFiles   \* remove_many also deletes the queued_files rows of the removed URLs

VARIABLES ids, strs, hosts, files, visits, qc, n

mvars == <<ids, strs, hosts, files, visits, qc>>
ovars == <<ptab, tab, ev, phs, hs, host, gvis, gfiled>>
vars  == <<mvars, ovars, n>>

-----------------------------------------------------------------------------
Max(S) == CHOOSE x \in S : \A y \in S : y <= x
Min(S) == CHOOSE x \in S : \A y \in S : x <= y
MaxId(f) == IF DOMAIN f = {} THEN 0 ELSE Max({f[u] : u \in DOMAIN f})
MaxKey(f) == IF DOMAIN f = {} THEN 0 ELSE Max(DOMAIN f)
MinBy(S, f) == CHOOSE u \in S : \A v \in S : f[u] <= f[v]

AppendNew(s, x) == IF x \in Range(s) THEN s ELSE Append(s, x)
RECURSIVE InsAll(_, _)
InsAll(s, l) == IF l = <<>> THEN s ELSE InsAll(AppendNew(s, Head(l)), Tail(l))

IndexOf(s, x) == IF x \in Range(s) THEN CHOOSE i \in DOMAIN s : s[i] = x ELSE 0

\* rows in id order (what get_all returns)
RECURSIVE ById(_, _)
ById(S, f) == IF S = {} THEN <<>> ELSE LET u == MinBy(S, f) IN <<u>> \o ById(S \ {u}, f)
AllRows == LET o == ById(DOMAIN tab, ids) IN [i \in DOMAIN o |-> tab[o[i]]]

InitWith(h) ==
  /\ tab = <<>> /\ ptab = <<>> /\ ids = <<>> /\ strs = <<>> /\ hosts = <<>> /\ files = <<>> /\ visits = <<>>
  /\ qc = 0 /\ n = 0
  /\ ev = InitEv
  /\ phs = {} /\ hs = {} /\ host = h /\ gvis = {} /\ gfiled = {}

\* every action: bookkeeping of the observation variables (must be the LAST conjunct: reads hosts')
Obs(e) ==
  /\ ev' = e /\ ptab' = tab /\ phs' = hs /\ hs' = Range(hosts') /\ n' = n + 1
  /\ UNCHANGED host
  /\ gvis' = GvisFold(gvis, e)
  /\ gfiled' = GfiledFold(gfiled, e, DOMAIN tab)

-----------------------------------------------------------------------------
(* add_many *)
StrsOf(e) == <<e.u>> \o (IF e.hp /\ e.par \notin {NoneS, EmptyS} THEN <<e.par>> ELSE <<>>)
                     \o (IF e.hp /\ e.root \notin {NoneS, EmptyS} THEN <<e.root>> ELSE <<>>)
RECURSIVE StrList(_)
StrList(b) == IF b = <<>> THEN <<>> ELSE StrsOf(Head(b)) \o StrList(Tail(b))

\* parent / root are stored as references into url_strings: a string that is not there reads back as None
Ref(s, x) == IF x # NoneS /\ x \in Range(s) THEN x ELSE NoneS

NewRow(e, s) ==
  [u    |-> e.u,
   st   |-> IF e.st = "none" THEN "todo" ELSE e.st,
   try  |-> IF e.try = NoneI THEN 0 ELSE e.try,
   lv   |-> IF e.lv = NoneI THEN 0 ELSE e.lv,
   il   |-> e.il,
   par  |-> IF e.hp THEN Ref(s, e.par) ELSE e.u,
   root |-> IF e.hp THEN Ref(s, e.root) ELSE e.u,
   lt   |-> e.lt,
   pr   |-> IF e.pr = NoneI THEN 0 ELSE e.pr,
   post |-> e.post,
   code |-> NoneI,
   fn   |-> NoneS]

\* INSERT OR IGNORE row by row in batch order: the first occurrence of a URL wins
RECURSIVE InsRows(_, _, _, _, _)
InsRows(t, i, b, added, s) ==
  IF b = <<>> THEN <<t, i, added>>
  ELSE LET e == Head(b) IN
       IF e.u \in DOMAIN t THEN InsRows(t, i, Tail(b), added, s)
       ELSE InsRows(t @@ (e.u :> NewRow(e, s)), i @@ (e.u :> MaxId(i) + 1), Tail(b), Append(added, e.u), s)

RECURSIVE HostList(_)
HostList(us) == IF us = <<>> THEN <<>>
                ELSE (IF host[Head(us)] > 0 THEN <<host[Head(us)]>> ELSE <<>>) \o HostList(Tail(us))

AddMany(b) ==
  LET E(r) == [op |-> "add_many", batch |-> b, res |-> r] IN
  IF b = <<>>
  THEN /\ UNCHANGED <<tab, mvars>> /\ Obs(E(OkRes))
  ELSE
  LET s1    == InsAll(strs, StrList(b))
      r     == InsRows(tab, ids, b, <<>>, s1)
      added == r[3]
      \* the bound parameters parent_url / root_url exist only if some entry of the batch supplies them
      bound == /\ \E i \in DOMAIN b : ~b[i].hp \/ b[i].par # NoneS
               /\ \E i \in DOMAIN b : ~b[i].hp \/ b[i].root # NoneS
  IN
  IF ~FixBind /\ ~bound
  THEN /\ UNCHANGED <<tab, mvars>> /\ Obs(E(Res("crash", <<>>, 0, <<>>)))      \* StatementError, rollback
  ELSE IF \E i \in DOMAIN added : host[added[i]] = -1
  THEN /\ UNCHANGED <<tab, mvars>> /\ Obs(E(Res("valueerror", <<>>, 0, <<>>))) \* URLInfo.parse, rollback
  ELSE /\ tab' = r[1] /\ ids' = r[2] /\ strs' = s1
       \* only the URLs a crawl is started with (no properties, or level none / 0) define permitted hosts
       /\ hosts' = InsAll(hosts, HostList(SelectSeq(added, LAMBDA u : \E i \in DOMAIN b : b[i].u = u /\ (~b[i].hp \/ b[i].lv <= 0))))
       /\ qc' = qc + Len(added)
       /\ UNCHANGED <<files, visits>>
       /\ Obs(E(Res("ok", <<>>, 0, added)))

-----------------------------------------------------------------------------
(* check_out: the first row (lowest id) with the status [and level < bound] *)
CheckOut(st, lv) ==
  LET E(r) == [op |-> "check_out", st |-> st, lv |-> lv, res |-> r]
      el == {u \in DOMAIN tab : tab[u].st = st /\ (lv = NoneI \/ tab[u].lv < lv)}
  IN
  IF el = {}
  THEN /\ UNCHANGED <<tab, mvars>> /\ Obs(E(Res("notfound", <<>>, 0, <<>>)))
  ELSE LET u == MinBy(el, ids) IN
       /\ tab' = [tab EXCEPT ![u].st = "in_progress"]
       /\ qc' = qc - 1
       /\ UNCHANGED <<ids, strs, hosts, files, visits>>
       /\ Obs(E(Res("ok", <<tab'[u]>>, 0, <<>>)))

-----------------------------------------------------------------------------
(* check_in *)
FileKey(u) == IF FixFileId THEN (IF u \in DOMAIN ids THEN ids[u] ELSE 0) ELSE IndexOf(strs, u)

CheckIn(u, st, inc, hr, fn, code) ==
  LET q == FileKey(u)
  IN
  /\ tab' = IF u \in DOMAIN tab
            THEN [tab EXCEPT ![u] = [@ EXCEPT !.st = st,
                                               !.try = IF inc THEN @ + 1 ELSE @,
                                               !.code = IF hr /\ code # NoneI THEN code ELSE @,
                                               !.fn = IF hr /\ fn # NoneS THEN fn ELSE @]]
            ELSE tab
  /\ files' = IF st = "done" /\ hr /\ fn \notin {NoneS, EmptyS} /\ q # 0
                 /\ ~\E f \in DOMAIN files : files[f].qid = q
              THEN files @@ ((MaxKey(files) + 1) :> [qid |-> q, st |-> "todo"])
              ELSE files
  /\ qc' = qc + (IF st = "error" THEN 1 ELSE 0)
  /\ UNCHANGED <<ids, strs, hosts, visits>>
  /\ Obs([op |-> "check_in", u |-> u, st |-> st, inc |-> inc, hr |-> hr, fn |-> fn, code |-> code, res |-> OkRes])

-----------------------------------------------------------------------------
(* update_one, release, remove_many *)
UpdateOne(u, kv) ==
  /\ tab' = IF u \in DOMAIN tab THEN [tab EXCEPT ![u] = Upd(@, kv)] ELSE tab
  /\ UNCHANGED mvars
  /\ Obs([op |-> "update_one", u |-> u, kv |-> kv, res |-> OkRes])

Release ==
  /\ tab' = [u \in DOMAIN tab |-> IF tab[u].st = "in_progress" THEN [tab[u] EXCEPT !.st = "todo"] ELSE tab[u]]
  /\ files' = [f \in DOMAIN files |-> IF files[f].st = "in_progress" THEN [files[f] EXCEPT !.st = "todo"] ELSE files[f]]
  /\ UNCHANGED <<ids, strs, hosts, visits, qc>>
  /\ Obs([op |-> "release", res |-> OkRes])

Restrict(f, S) == [x \in S |-> f[x]]

RemoveMany(us) ==
  LET gone == Range(us) \cap DOMAIN tab
      gids == {ids[u] : u \in gone}
  IN
  /\ tab' = Restrict(tab, DOMAIN tab \ gone)
  /\ ids' = Restrict(ids, DOMAIN ids \ gone)
  /\ files' = IF FixRemoveFiles THEN Restrict(files, {f \in DOMAIN files : files[f].qid \notin gids}) ELSE files
  /\ UNCHANGED <<strs, hosts, visits, qc>>
  /\ Obs([op |-> "remove_many", urls |-> us, res |-> OkRes])

-----------------------------------------------------------------------------
(* visits *)
RECURSIVE InsVisits(_, _)
InsVisits(v, l) ==
  IF l = <<>> THEN v
  ELSE LET x == Head(l) IN
       InsVisits(IF x[1] \in DOMAIN v THEN v ELSE v @@ (x[1] :> [w |-> x[2], d |-> x[3]]), Tail(l))

AddVisits(vs) ==
  /\ visits' = InsVisits(visits, vs)
  /\ UNCHANGED <<tab, ids, strs, hosts, files, qc>>
  /\ Obs([op |-> "add_visits", vs |-> vs, res |-> OkRes])

GetRevisitId(u, dg) ==
  /\ UNCHANGED <<tab, mvars>>
  /\ Obs([op |-> "get_revisit_id", u |-> u, dg |-> dg,
          res |-> Res("ok", <<>>, IF u \in DOMAIN visits /\ visits[u].d = dg THEN visits[u].w ELSE NoneS, <<>>)])

-----------------------------------------------------------------------------
(* reads *)
Count == /\ UNCHANGED <<tab, mvars>>
         /\ Obs([op |-> "count", res |-> Res("ok", <<>>, Cardinality(DOMAIN tab), <<>>)])

GetOne(u) == /\ UNCHANGED <<tab, mvars>>
             /\ Obs([op |-> "get_one", u |-> u,
                     res |-> IF u \in DOMAIN tab THEN Res("ok", <<tab[u]>>, 0, <<>>) ELSE Res("notfound", <<>>, 0, <<>>)])

Contains(u) == /\ UNCHANGED <<tab, mvars>>
               /\ Obs([op |-> "contains", u |-> u, res |-> Res("ok", <<>>, IF u \in DOMAIN tab THEN 1 ELSE 0, <<>>)])

GetAll == /\ UNCHANGED <<tab, mvars>>
          /\ Obs([op |-> "get_all", res |-> Res("ok", AllRows, 0, <<>>)])

GetHostnames == /\ UNCHANGED <<tab, mvars>>
                /\ Obs([op |-> "get_hostnames", res |-> Res("ok", <<>>, 0, hosts)])

RootTodo == /\ UNCHANGED <<tab, mvars>>
            /\ Obs([op |-> "root_todo",
                    res |-> Res("ok", <<>>, Cardinality({u \in DOMAIN tab : tab[u].st = "todo" /\ tab[u].lv = 0}), <<>>)])

-----------------------------------------------------------------------------
(* file queue of the link converter *)
ConvertCheckOut ==
  LET E(r) == [op |-> "convert_check_out", res |-> r]
      el == {f \in DOMAIN files : files[f].st = "todo"}
  IN
  IF el = {}
  THEN /\ UNCHANGED <<tab, mvars>> /\ Obs(E(Res("notfound", <<>>, 0, <<>>)))
  ELSE LET f == Min(el)
           us == {u \in DOMAIN ids : ids[u] = files[f].qid}
       IN
       IF us = {}
       THEN \* queued_file.queued_url is None: AttributeError, rollback
            /\ UNCHANGED <<tab, mvars>> /\ Obs(E(Res("crash", <<>>, 0, <<>>)))
       ELSE /\ files' = [files EXCEPT ![f].st = "in_progress"]
            /\ UNCHANGED <<tab, ids, strs, hosts, visits, qc>>
            /\ Obs(E(Res("ok", <<tab[CHOOSE u \in us : TRUE]>>, f, <<>>)))

ConvertCheckIn(f, st) ==
  /\ files' = IF f \in DOMAIN files THEN [files EXCEPT ![f].st = st] ELSE files
  /\ UNCHANGED <<tab, ids, strs, hosts, visits, qc>>
  /\ Obs([op |-> "convert_check_in", fid |-> f, st |-> st, res |-> OkRes])

-----------------------------------------------------------------------------
(* close + a new SQLiteURLTable (and a new wrapper) on the same file *)
Reopen ==
  /\ qc' = 0
  /\ UNCHANGED <<tab, ids, strs, hosts, files, visits>>
  /\ Obs([op |-> "reopen", res |-> OkRes])

-----------------------------------------------------------------------------
(* Finite instance for the design check and for scenario generation.        *)
CONSTANTS NU,        \* URL tokens 2..NU+1
          BadLast,   \* the last URL token is not parseable (add_many must reject it)
          PSet,      \* which of the property templates below are used in batches
          MaxBatch,  \* batch length bound (0..2)
          MaxOps,    \* history length bound
          OpsOn      \* which groups of calls are enabled

URLs == 2..(NU + 1)
HostTok == 100
\* tokens 2 and 3: two URLs on one host; 4: a URL without host name (mailto:); 5..: another host;
\* with BadLast the last URL token is a string that URLInfo.parse rejects
DesignHost == [t \in 1..(NU + 1) |->
                 IF t = 1 THEN -1
                 ELSE IF t = NU + 1 /\ BadLast THEN -1
                 ELSE IF t = 4 THEN 0 ELSE IF t < 4 THEN HostTok ELSE HostTok + 1]

NoProps == [hp |-> FALSE, par |-> NoneS, root |-> NoneS, st |-> "none", try |-> NoneI, lv |-> NoneI,
            il |-> NoneI, lt |-> "none", pr |-> NoneI, post |-> NoneS]
Templates ==
  <<NoProps,
    \* a child link as ItemSession.add_child_url makes it
    [NoProps EXCEPT !.hp = TRUE, !.par = 2, !.root = 2, !.lv = 1],
    \* explicit values, no parent / root (ItemSession.add_url with its own URLProperties)
    [NoProps EXCEPT !.hp = TRUE, !.st = "error", !.try = 2, !.lv = 2, !.il = 0, !.lt = "css", !.pr = 3, !.post = 7],
    \* empty parent, a root that is nobody's URL
    [NoProps EXCEPT !.hp = TRUE, !.par = EmptyS, !.root = 9, !.lv = 0]>>

Entry(u, p) == [u |-> u, hp |-> p.hp, par |-> p.par, root |-> p.root, st |-> p.st, try |-> p.try, lv |-> p.lv,
                il |-> p.il, lt |-> p.lt, pr |-> p.pr, post |-> p.post]
Entries == {Entry(u, Templates[p]) : u \in URLs, p \in PSet}
Batches == (IF MaxBatch >= 0 /\ "empty" \in OpsOn THEN {<<>>} ELSE {})
           \cup (IF MaxBatch >= 1 THEN {<<a>> : a \in Entries} ELSE {})
           \cup (IF MaxBatch >= 2 THEN {<<a, b>> : a \in Entries, b \in Entries} ELSE {})

NoKv == [st |-> "absent", try |-> Absent, lv |-> Absent, il |-> Absent, lt |-> "absent", pr |-> Absent,
         post |-> Absent, code |-> Absent, fn |-> Absent]
Kvs == {[NoKv EXCEPT !.st = "done", !.fn = 8], [NoKv EXCEPT !.lv = 0, !.try = 5], [NoKv EXCEPT !.st = "todo"]}

Init == InitWith(DesignHost)

On(g) == g \in OpsOn /\ n < MaxOps
DoAddMany  == On("add") /\ \E b \in Batches : AddMany(b)
DoCheckOut == On("core") /\ \E st \in {"todo", "error", "done"}, lv \in {NoneI, 1, 2} : CheckOut(st, lv)
DoCheckIn  == On("core") /\ \E u \in URLs, st \in {"done", "error", "skipped"}, inc \in BOOLEAN :
                \/ CheckIn(u, st, inc, FALSE, NoneS, NoneI)
                \/ st = "done" /\ CheckIn(u, st, inc, TRUE, 8, 200)
                \/ st = "done" /\ ~inc /\ CheckIn(u, st, inc, TRUE, EmptyS, NoneI)
DoRelease  == On("core") /\ Release
DoRemove   == On("core") /\ ((\E u \in URLs : RemoveMany(<<u>>)) \/ RemoveMany(<<2, 3>>))
DoReopen   == On("core") /\ Reopen
DoUpdate   == On("update") /\ \E u \in URLs, kv \in Kvs : UpdateOne(u, kv)
DoAddVisits == On("visits") /\ \/ \E u \in {2, 3}, w \in {5, 6}, d \in {5, 6} : AddVisits(<<<<u, w, d>>>>)
                               \/ AddVisits(<<<<2, 5, 5>>, <<2, 6, 6>>, <<3, 6, 5>>>>)
DoGetRevisit == On("visits") /\ \E u \in {2, 3}, d \in {5, 6} : GetRevisitId(u, d)
DoCount    == On("reads") /\ Count
DoGetAll   == On("reads") /\ GetAll
DoGetHostnames == On("reads") /\ GetHostnames
DoRootTodo == On("reads") /\ RootTodo
DoGetOne   == On("reads") /\ \E u \in URLs : GetOne(u)
DoContains == On("reads") /\ \E u \in URLs : Contains(u)
DoReads    == DoCount \/ DoGetAll \/ DoGetHostnames \/ DoRootTodo \/ DoGetOne \/ DoContains
DoConvertOut == On("convert") /\ ConvertCheckOut
DoConvertIn  == On("convert") /\ \E f \in 1..2, st \in {"done", "todo"} : ConvertCheckIn(f, st)

Next == \/ DoAddMany \/ DoCheckOut \/ DoCheckIn \/ DoRelease \/ DoRemove \/ DoReopen \/ DoUpdate
        \/ DoAddVisits \/ DoGetRevisit \/ DoReads \/ DoConvertOut \/ DoConvertIn

Spec == Init /\ [][Next]_vars

-----------------------------------------------------------------------------
(* The reference satisfies every clause of the property (design check):     *)
(* ModelClauses = all clauses, minus exactly what the three recorded        *)
(* defects break while their repair switch is off (with all three switches  *)
(* on it is equivalent to Clauses).                                         *)
TypeOK ==
  /\ DOMAIN ids = DOMAIN tab
  /\ \A u \in DOMAIN tab : tab[u].u = u /\ tab[u].st \in {"todo", "in_progress", "done", "error", "skipped"}
  /\ \A u, v \in DOMAIN ids : u # v => ids[u] # ids[v]
  /\ DOMAIN tab \subseteq Range(strs)
  /\ Len(strs) = Cardinality(Range(strs)) /\ Len(hosts) = Cardinality(Range(hosts))
  /\ \A f, g \in DOMAIN files : f # g => files[f].qid # files[g].qid

Clauses == BadClause = 0

ConvFixed == FixFileId /\ FixRemoveFiles
ModelClauses ==
  /\ ReAddIsNoop /\ AddManyReportsExactlyNew /\ NewRowAsGiven /\ OnlyRemoveDeletes /\ RemoveExact
  /\ OnlyMutatorsMutate /\ StatusMachine /\ TryMonotone /\ DepthStable /\ CheckOutNotFoundIff /\ CheckOutMarks
  /\ CheckInStatusTry /\ CheckInResult /\ CheckInOthersSame /\ UpdateExact /\ ReleaseExact /\ ReopenIdentity
  /\ ReadAgree /\ FailureAtomic /\ VisitSound /\ VisitComplete
  /\ (NoCrash \/ (ev.res.k = "crash" /\ ((Is("add_many") /\ ~FixBind) \/ (Is("convert_check_out") /\ ~ConvFixed))))
  /\ (ConvFixed => ConvertSound)
=============================================================================
