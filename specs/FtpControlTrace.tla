-------------------------- MODULE FtpControlTrace --------------------------
(***************************************************************************)
(* Strict trace validation: is a recorded conversation of the real         *)
(* wpull.protocol.ftp.client.Session with the scripted server a behaviour  *)
(* of FtpControl.tla?  The server's events carry their bytes; the client's *)
(* steps (which command is written when, how a reply is assembled from the *)
(* pieces, where the session fails, when the transfer is complete) must be *)
(* the model's.  A rejection is MODEL-DRIFT, never an alarm.               *)
(* Batch of traces in one JSON file (IOEnv.TRACE_FILE); one initial state  *)
(* per trace; per-trace verdicts in TLC registers, printed by Post.        *)
(***************************************************************************)
EXTENDS FtpControl, Json, IOUtils, TLCExt

Batch == JsonDeserialize(IOEnv.TRACE_FILE)
NT    == Len(Batch)

VARIABLES tid, l,
          owed     \* 1: the model has written a command whose "cmd" event has not been consumed yet
tvars == <<vars, tid, l, owed>>

Ev  == Batch[tid].ev
Cur == Ev[l]
Is(name) == l <= Len(Ev) /\ Cur.e = name
Step   == l' = l + 1 /\ UNCHANGED tid
Silent == UNCHANGED <<tid, l>>
Owes   == owed' = IF Len(cmdBytes') > Len(cmdBytes) THEN 1 ELSE 0

TInit == /\ tid \in 1..NT /\ l = 2 /\ owed = 0
         /\ Len(Batch[tid].ev) >= 1 /\ Batch[tid].ev[1].e = "session"
         /\ LET s == Batch[tid].ev[1] IN InitWith(s.mode, s.restart, s.user, s["pass"], s.path)

TSession == /\ Is("session") /\ owed = 0 /\ Step /\ UNCHANGED owed
            /\ Cur["pass"] = pass /\ Cur.path = path /\ ~Cur.restart
            /\ NextSession(Cur.user, Cur.mode)

TConn == /\ Is("conn") /\ owed = 0 /\ Step /\ UNCHANGED owed
         /\ ~copen /\ Connect

TCmd == /\ Is("cmd") /\ owed = 1 /\ Step /\ owed' = 0
        /\ Cur.b = cmdBytes[Len(cmdBytes)]
        /\ UNCHANGED vars

TSent == /\ Is("sent") /\ owed = 0 /\ Step /\ UNCHANGED <<owed, odd>>
         /\ IF Cur.drop THEN DropWith(Cur.b)
            ELSE Send(Cur.b, Cur.xfer)

TSentFinal == /\ Is("sentfinal") /\ owed = 0 /\ Step /\ UNCHANGED <<owed, odd>>
              /\ IF Cur.drop THEN DropFinal(Cur.b) /\ UNCHANGED odd ELSE SendFinal(Cur.b)

TPiece == /\ Is("piece") /\ owed = 0 /\ Step /\ UNCHANGED owed
          /\ Deliver(Cur.n)

TReply == /\ Is("reply") /\ owed = 0 /\ Step
          /\ ReadLine /\ Owes
          /\ Len(codes') = Len(codes) + 1 /\ codes'[Len(codes')] = Cur.code
          /\ LET st == ParseLine(cur, Lines(inbuf)[1]) IN st.text = Cur.text

TDconn == /\ Is("dconn") /\ owed = 0 /\ Step
          /\ daddr = 1 /\ DataConnect /\ Owes

TDsent  == Is("dsent")  /\ owed = 0 /\ Step /\ UNCHANGED owed /\ DataSend(Cur.n)
TDclose == Is("dclose") /\ owed = 0 /\ Step /\ UNCHANGED owed /\ DataClose
TDpiece == Is("dpiece") /\ owed = 0 /\ Step /\ UNCHANGED owed /\ dq # <<>> /\ Head(dq) = Cur.n /\ ReadData
TDeof   == Is("deof")   /\ owed = 0 /\ Step /\ UNCHANGED owed /\ ReadDataEOF

TComplete == /\ Is("complete") /\ owed = 0 /\ Step /\ UNCHANGED owed
             /\ transferComplete /\ cpc = "done" /\ bodyOK = (Cur.body = Cur.sent) /\ dgot = Cur.body
             /\ UNCHANGED vars

TEnd == /\ Is("end") /\ owed = 0 /\ Step /\ UNCHANGED owed
        /\ CASE Cur.v = "ok"    -> outcome = "ok" /\ cpc = "done"
             [] Cur.v = "error" -> outcome = "error"
             [] Cur.v = "crash" -> outcome = "crash"
             [] Cur.v = "hang"  -> outcome = "none" /\ ~ENABLED ClientNext
             [] OTHER -> FALSE
        /\ UNCHANGED vars

\* steps of the client that produce no event of their own
TSilent ==
  /\ Silent /\ owed = 0
  /\ \/ ReadLine /\ Len(codes') = Len(codes) /\ UNCHANGED owed       \* a line that does not complete the reply (or crashes)
     \/ ReadEOF /\ UNCHANGED owed
     \/ daddr # 1 /\ DataConnect /\ UNCHANGED owed                   \* connection refused
     \/ copen /\ Connect /\ Owes                                     \* the connection came back from the pool

TNext == TSession \/ TConn \/ TCmd \/ TSent \/ TSentFinal \/ TPiece \/ TReply \/ TDconn \/ TDsent \/ TDclose
         \/ TDpiece \/ TDeof \/ TComplete \/ TEnd \/ TSilent

TSpec == TInit /\ [][TNext]_tvars

\* ---- per-trace verdict registers: i -> furthest line reached, NT+i -> unused (properties are the monitor's business)
ASSUME \A i \in 1..(2 * NT) : TLCSet(i, 0)

Record == IF TLCGet(tid) < l THEN TLCSet(tid, l) ELSE TRUE

Post == PrintT(<<"VERDICTS_BEGIN",
                 [i \in 1..NT |-> <<TLCGet(i) - 1, TLCGet(NT + i) \div 100000, TLCGet(NT + i) % 100000>>],
                 "VERDICTS_END">>)
=============================================================================
