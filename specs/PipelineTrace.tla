--------------------------- MODULE PipelineTrace ---------------------------
(***************************************************************************)
(* Strict trace validation: is a recorded execution of the real            *)
(* wpull.pipeline.pipeline.Pipeline a behaviour of Pipeline.tla?           *)
(* Batch of traces in one JSON file (IOEnv.TRACE_FILE); one initial state  *)
(* per trace; per-trace verdicts in TLC registers, printed by Post.        *)
(***************************************************************************)
EXTENDS Pipeline, Json, IOUtils, TLCExt

Batch == JsonDeserialize(IOEnv.TRACE_FILE)
NT    == Len(Batch)

VARIABLES tid, l, nextw
tvars == <<vars, tid, l, nextw>>

Ev  == Batch[tid].ev
Cur == Ev[l]
Is(name) == l <= Len(Ev) /\ Cur.e = name
Step   == l' = l + 1 /\ UNCHANGED tid
Silent == UNCHANGED <<tid, l>>

TInit == /\ tid \in 1..NT /\ l = 1 /\ nextw = 1
         /\ InitWith(Batch[tid].c0)

TSrc == /\ Is("src") /\ Step /\ UNCHANGED nextw
        /\ \/ Cur.k = "item" /\ src <= K /\ src = Cur.v /\ SrcReturn
           \/ Cur.k = "none" /\ src > K /\ SrcReturn
           \/ Cur.k = "raise" /\ SrcRaise

TPut == /\ Is("put") /\ Step /\ UNCHANGED nextw
        /\ PPut /\ ppc' = "get" /\ unfinished' = Cur.unf /\ Cardinality(q') = Cur.qs

TBegin1 == /\ Is("begin") /\ Cur.j = 1 /\ Step /\ UNCHANGED nextw
           /\ Cur.w \in Workers
           /\ WGet(Cur.w) /\ wpc'[Cur.w] = "body" /\ witem'[Cur.w] = Cur.i

TBeginN == /\ Is("begin") /\ Cur.j > 1 /\ Step /\ UNCHANGED nextw
           /\ Cur.w \in Workers
           /\ wpc[Cur.w] = "body" /\ wtask[Cur.w] = Cur.j /\ witem[Cur.w] = Cur.i
           /\ UNCHANGED vars

TPill == /\ Is("pill") /\ Step /\ UNCHANGED nextw
         /\ Cur.w \in Workers
         /\ WGet(Cur.w) /\ wpc'[Cur.w] = "exited"

TEnd == /\ Is("end") /\ Step /\ UNCHANGED nextw
        /\ Cur.w \in Workers
        /\ wtask[Cur.w] = Cur.j /\ witem[Cur.w] = Cur.i
        /\ IF Cur.ok THEN BodyDone(Cur.w) ELSE BodyRaise(Cur.w)

TDone == /\ Is("done") /\ Step /\ UNCHANGED nextw
         /\ Cur.w \in Workers
         /\ ItemDone(Cur.w) /\ unfinished' = Cur.unf

TStop == /\ Is("stop") /\ Step /\ UNCHANGED nextw
         /\ (pstate = "running") = Cur.running
         /\ IF Cur.ext THEN Stop ELSE PExit

TSetc == /\ Is("setc") /\ Step /\ UNCHANGED nextw
         /\ SetConc(Cur.c)

TRet == /\ Is("ret") /\ Step /\ UNCHANGED nextw
        /\ (MShutProducer \/ (MWake /\ mpc' = "error"))
        /\ returned' = Cur.v

THang == /\ Is("hang") /\ Step /\ UNCHANGED nextw
         /\ ~ENABLED SysNext
         /\ UNCHANGED vars

\* steps of the model that produce no event in the recording
TSilent ==
  /\ Silent
  /\ \/ PStart /\ UNCHANGED nextw
     \/ PLoop /\ UNCHANGED nextw
     \/ PPut /\ ppc' = "put_wait" /\ UNCHANGED nextw
     \/ (\E w \in Workers : WGet(w) /\ wpc'[w] = "parked") /\ UNCHANGED nextw
     \/ /\ MLoop
        /\ LET new == wtasks' \ wtasks IN
             /\ new = nextw..(nextw + Cardinality(new) - 1)
             /\ nextw' = nextw + Cardinality(new)
     \/ MWake /\ mpc' = "loop" /\ UNCHANGED nextw
     \/ MUnpause /\ UNCHANGED nextw
     \/ MShutWorkers /\ UNCHANGED nextw

TNext == TSrc \/ TPut \/ TBegin1 \/ TBeginN \/ TPill \/ TEnd \/ TDone \/ TStop \/ TSetc \/ TRet \/ THang \/ TSilent

TSpec == TInit /\ [][TNext]_tvars

\* ---- per-trace verdict registers: i -> furthest line reached, NT+i -> first violated property clause
ASSUME \A i \in 1..(2 * NT) : TLCSet(i, 0)

BadClause ==
  IF ~AtMostOnce THEN 1 ELSE IF ~InOrder THEN 2 ELSE IF ~OnlySupplied THEN 3
  ELSE IF ~ExactlyOnceIfNoStop THEN 4 ELSE IF ~AllSuppliedIfNoStop THEN 5
  ELSE IF ~NoWorkAfterStop THEN 6 ELSE IF ~ErrorSurfaces THEN 7 ELSE IF ~UnfinishedOK THEN 8 ELSE IF ~NoOrphanWork THEN 12 ELSE 0

Record ==
  /\ IF TLCGet(tid) < l THEN TLCSet(tid, l) ELSE TRUE
  /\ IF BadClause # 0 /\ TLCGet(NT + tid) = 0 THEN TLCSet(NT + tid, BadClause * 100000 + l) ELSE TRUE

Post == PrintT(<<"VERDICTS_BEGIN",
                 [i \in 1..NT |-> <<TLCGet(i) - 1, TLCGet(NT + i) \div 100000, TLCGet(NT + i) % 100000>>],
                 "VERDICTS_END">>)
=============================================================================
