--------------------------- MODULE WebSessionMon ---------------------------
(***************************************************************************)
(* Observation monitor for C16.  Every `send` event is the projection of   *)
(* the BYTES one listener of the fake network received (parsed by the      *)
(* driver, independently of wpull), next to what HTTP semantics expect at  *)
(* that hop given the server's own script (`exp`: the URL the server       *)
(* redirected to / the start URL; independent of the client's state):      *)
(*   at      where the request was delivered   [host, scheme, port]        *)
(*   exp     [host, scheme, port, targets, authority, absolutes]           *)
(*   target  the request-target on the wire                                *)
(*   hosts   the values of all Host fields                                 *)
(*   auth    owners of the credentials in all Authorization fields          *)
(*           ("login": the global --http-user login, a host name: the      *)
(*           user-info of a URL of that host, "other")                     *)
(*   cookies owners (hosts) of all cookies in Cookie fields                *)
(*   referer "none" | "http" | "https"     wf: header block well formed    *)
(* `recv` events carry what the server answered.  Decides VIOLATION.       *)
(***************************************************************************)
EXTENDS Naturals, Sequences, FiniteSets, TLC, Json, IOUtils, TLCExt

Batch == JsonDeserialize(IOEnv.TRACE_FILE)
NT    == Len(Batch)

VARIABLES tid, l, cur, nsent, nfollowed, pendingRedirect, outcome,
          tunbad    \* a CONNECT request (tunnel through the proxy) without exactly one Host field naming its target
mvars == <<tid, l, cur, nsent, nfollowed, pendingRedirect, outcome, tunbad>>

T   == Batch[tid]
Ev  == T.ev
NoSend == [none |-> TRUE]

MInit == tid \in 1..NT /\ l = 1 /\ cur = NoSend /\ nsent = 0 /\ nfollowed = 0 /\ pendingRedirect = FALSE /\ outcome = "running"
         /\ tunbad = FALSE

MNext ==
  /\ l <= Len(Ev) /\ l' = l + 1 /\ UNCHANGED tid
  /\ LET e == Ev[l] IN
     /\ cur' = IF e.e = "send" THEN e ELSE NoSend
     /\ nsent' = IF e.e = "send" THEN nsent + 1 ELSE nsent
     /\ nfollowed' = IF e.e = "send" /\ pendingRedirect THEN nfollowed + 1 ELSE nfollowed
     /\ pendingRedirect' = IF e.e = "recv" THEN (e.status \in {301, 302, 303, 307, 308} /\ e.loc = "url")
                           ELSE IF e.e = "send" THEN FALSE ELSE pendingRedirect
     /\ outcome' = IF e.e = "outcome" THEN e.v ELSE outcome
     /\ tunbad' = (tunbad \/ (e.e = "tunnel" /\ ~(e.wf /\ e.hosts = <<e.target>>)))

MSpec == MInit /\ [][MNext]_mvars

-----------------------------------------------------------------------------
Sent == cur # NoSend
Range(s) == {s[i] : i \in 1..Len(s)}

\* the request went to the server the URL names
Delivered   == Sent => (cur.at.host = cur.exp.host /\ cur.at.scheme = cur.exp.scheme /\ cur.at.port = cur.exp.port)
\* request-target: path?query of the URL being fetched; the absolute URL iff talking to a proxy without a tunnel
\* (exp.targets: the acceptable spellings of the normalized path?query - one, except for URL-text classes where
\* normalization admits several, e.g. "+" or "%20" for a space in the query)
\* (the absolute form with the URL's user-info in it is tolerated - lenient reading; RFC 7230 2.7.1 forbids it)
TargetOK    == Sent => cur.target \in Range(IF cur.proxied /\ cur.exp.scheme = "http" THEN cur.exp.absolutes ELSE cur.exp.targets)
\* exactly one Host field, naming that URL's host and non-default port
OneHostOK   == Sent => cur.hosts = <<cur.exp.authority>>
\* credentials of one host are not sent to another
AuthOK      == Sent => (Len(cur.auth) <= 1 /\ Range(cur.auth) \subseteq {"login", cur.exp.host})
\* cookies of one host are not sent to another
CookieOK    == Sent => Range(cur.cookies) \subseteq {cur.exp.host}
\* https -> http never carries the referrer
\* ... and never carries the user name / password of the referring URL to another host (refcred: "none" | "same" |
\* "foreign" - whether the Referer value has user-info, and whether it goes to the host it belongs to)
RefererOK   == Sent => (~(cur.referer = "https" /\ cur.exp.scheme = "http") /\ cur.refcred # "foreign")
\* request line + fields + blank line, nothing smuggled in
WellFormed  == Sent => (cur.wf /\ cur.method = "GET" /\ cur.nreferer <= 1)
\* the request that opens a tunnel through the proxy (CONNECT host:port) is a request for that URL too (RFC 7230 5.4:
\* a Host field in every HTTP/1.1 request, for CONNECT the authority of the request-target)
TunnelOK    == ~tunbad
\* redirect bound
BoundOK     == nfollowed <= T.maxred /\ nsent <= 2 * (T.maxred + 1)
\* the visit ends (no hang, no exception other than a protocol error)
EndsOK      == outcome \in {"running", "ok", "error"}

ASSUME \A i \in 1..(2 * NT) : TLCSet(i, 0)

\* every violated clause is reported: the verdict is a bit mask (bit k-1 = clause k), kept in a TLC register
Viol(k) == CASE k = 1 -> ~Delivered [] k = 2 -> ~TargetOK [] k = 3 -> ~OneHostOK [] k = 4 -> ~AuthOK
             [] k = 5 -> ~CookieOK [] k = 6 -> ~RefererOK [] k = 7 -> ~WellFormed [] k = 8 -> ~BoundOK
             [] k = 9 -> ~EndsOK [] k = 10 -> ~TunnelOK
Pow2(k) == CASE k = 0 -> 1 [] k = 1 -> 2 [] k = 2 -> 4 [] k = 3 -> 8 [] k = 4 -> 16 [] k = 5 -> 32
             [] k = 6 -> 64 [] k = 7 -> 128 [] k = 8 -> 256 [] k = 9 -> 512
Bit(m, k) == (m \div Pow2(k - 1)) % 2 = 1
B(old, k) == IF Bit(old, k) \/ Viol(k) THEN Pow2(k - 1) ELSE 0
Mask(old) == B(old, 1) + B(old, 2) + B(old, 3) + B(old, 4) + B(old, 5) + B(old, 6) + B(old, 7) + B(old, 8) + B(old, 9)
             + B(old, 10)

\* ... and for the per-request clauses 1..7 the line at which each was first violated, 4 bits per clause
Pow16(k) == CASE k = 0 -> 1 [] k = 1 -> 16 [] k = 2 -> 256 [] k = 3 -> 4096 [] k = 4 -> 65536 [] k = 5 -> 1048576
              [] k = 6 -> 16777216
Digit(x, k) == (x \div Pow16(k - 1)) % 16
D(old, k) == Pow16(k - 1) * (IF Digit(old, k) # 0 THEN Digit(old, k)
                            ELSE IF Viol(k) THEN (IF l < 15 THEN l ELSE 15) ELSE 0)
Lines(old) == D(old, 1) + D(old, 2) + D(old, 3) + D(old, 4) + D(old, 5) + D(old, 6) + D(old, 7)

ASSUME \A i \in (2 * NT + 1)..(3 * NT) : TLCSet(i, 0)

Record ==
  /\ IF TLCGet(tid) < l THEN TLCSet(tid, l) ELSE TRUE
  /\ LET m == Mask(TLCGet(NT + tid)) IN IF m # TLCGet(NT + tid) THEN TLCSet(NT + tid, m) ELSE TRUE
  /\ LET x == Lines(TLCGet(2 * NT + tid)) IN IF x # TLCGet(2 * NT + tid) THEN TLCSet(2 * NT + tid, x) ELSE TRUE

Post == PrintT(<<"VERDICTS_BEGIN",
                 [i \in 1..NT |-> <<TLCGet(i) - 1, TLCGet(NT + i), TLCGet(2 * NT + i)>>],
                 "VERDICTS_END">>)
=============================================================================
