--------------------------- MODULE WarcWriterGen ---------------------------
(***************************************************************************)
(* Scenario generation (spec -> code): WarcWriter.tla without faults and   *)
(* crashes, plus a history of the environment's choices (recorder          *)
(* parameters, one entry per recorder process: appending?, the sequence of *)
(* sessions with their kind and response header shape).  Run with          *)
(* -simulate: every finished behaviour prints its scenario as JSON, which  *)
(* drivers/warcwriter.py replays into the real WARCRecorder (and then      *)
(* injects an I/O error / a process death at every operation index).       *)
(***************************************************************************)
EXTENDS WarcWriter, Json

VARIABLES hist
gvars == <<vars, hist>>

GInit == Init /\ hist = <<>>

\* the self-loops of the append machine (further writes) add nothing to a scenario
GSys ==
  \/ NewFile \/ Trunc \/ CdxInit \/ CHdr(TRUE) \/ Started
  \/ Flush \/ Move \/ SessEnd \/ Closed
  \/ DoAppend
  \/ AExists \/ AGetsize \/ JOpen \/ JClose \/ AOpen \/ AClose
  \/ JRemove \/ AGetsize2 \/ COpen \/ CClose \/ ADone

GNext ==
  \/ GSys /\ UNCHANGED hist
  \/ Close /\ UNCHANGED hist
  \/ \E a \in BOOLEAN : Startup(a) /\ hist' = Append(hist, [appending |-> a, ex |-> <<>>])
  \/ \E k \in Kinds, s \in Shapes, b \in Bodies :
        Session(k, s, b) /\ hist' = [hist EXCEPT ![Len(hist)].ex = Append(@, [k |-> k, shape |-> s, body |-> b, ovl |-> FALSE])]
  \/ \E s \in Shapes, b \in Bodies, k2 \in Kinds, s2 \in Shapes, b2 \in Bodies :
        SessionOvl(s, b, k2, s2, b2)
        /\ hist' = [hist EXCEPT ![Len(hist)].ex = @ \o <<[k |-> "http", shape |-> s, body |-> b, ovl |-> TRUE],
                                                        [k |-> k2, shape |-> s2, body |-> b2, ovl |-> FALSE]>>]

GSpec == GInit /\ [][GNext]_gvars

Emit == IF pc = "off" /\ runs = MaxRuns
        THEN PrintT(<<"SCENARIO", ToJson([par |-> par, runs |-> hist])>>) /\ FALSE
        ELSE TRUE
=============================================================================
