---------------------------- MODULE HttpWireMon ----------------------------
(***************************************************************************)
(* Observation monitor for C08 / C04: folds the events recorded from the   *)
(* real wpull HTTP client (and, for C04, the records read back from the    *)
(* WARC file by the harness's independent reader) into the observation     *)
(* variables of HttpWireProps and evaluates every property clause at every *)
(* step, against the REFERENCE operators (RFC 7230 section 3.3.3) applied  *)
(* by TLC to the message the fake server was told to send.  No assumption  *)
(* about the client's internals: this is what decides VIOLATION (the       *)
(* strict spec HttpWireTrace decides DRIFT).                               *)
(*                                                                         *)
(* One batch element = one execution:                                      *)
(*   prop  "C08" | "C04"     which family of clauses is reported           *)
(*   msgs  the messages (records of HttpWireProps over real octets)        *)
(*   urls  the requested URLs                                              *)
(*   ev    the events (drivers/httpwire_exec.py)                           *)
(***************************************************************************)
EXTENDS HttpWireProps, Json, IOUtils, TLCExt

Batch == JsonDeserialize(IOEnv.TRACE_FILE)
NT    == Len(Batch)

VARIABLES tid, l,
          reqId,     \* record id of the request record of exchange x
          stray,     \* request/response records whose target URI is not a requested URL
          pairs,     \* pairs[x] = <<#begin_request, #end_request, #begin_response, #end_response>>
          respType,  \* WARC-Type of the response-side record of exchange x ("" : none yet)
          warcBad    \* the independent reader could not parse the archive

mvars == <<msgs, ref, obsvars, warcDone, tid, l, reqId, stray, pairs, respType, warcBad>>

Ev  == Batch[tid].ev
Cur == Ev[l]
Outcomes == {"ok", "protocol_error", "network_error", "other_error", "hang"}

MInit ==
  /\ tid \in 1..NT /\ l = 1
  /\ msgs = Batch[tid].msgs
  /\ ref = [i \in XS |-> RefRec(Batch[tid].msgs[i])]
  /\ delivered = [i \in XS |-> <<>>] /\ recorded = [i \in XS |-> <<>>]
  /\ reqRecorded = [i \in XS |-> <<>>] /\ reqSent = [i \in XS |-> <<>>]
  /\ outcome = [i \in XS |-> "none"] /\ connClosed = [i \in XS |-> FALSE]
  /\ leftover = [i \in XS |-> 0] /\ unseen = [i \in XS |-> 0] /\ stalled = [i \in XS |-> FALSE]
  /\ reqRecs = [i \in XS |-> 0] /\ respRecs = [i \in XS |-> 0]
  /\ reqBlock = [i \in XS |-> <<>>] /\ respBlock = [i \in XS |-> <<>>]
  /\ linked = [i \in XS |-> FALSE] /\ warcDone = FALSE /\ fresh = [i \in XS |-> TRUE]
  /\ reqId = [i \in XS |-> ""] /\ stray = 0 /\ pairs = [i \in XS |-> <<0, 0, 0, 0>>]
  /\ respType = [i \in XS |-> ""] /\ warcBad = FALSE

\* the exchange a record belongs to: the one whose URL is the record's target URI (0: none)
XOfUri(u) == LET S == {i \in XS : Batch[tid].urls[i] = u} IN IF S = {} THEN 0 ELSE CHOOSE i \in S : TRUE
PairIdx(k) == CASE k = "breq" -> 1 [] k = "ereq" -> 2 [] k = "bresp" -> 3 [] OTHER -> 4

MNext ==
  /\ l <= Len(Ev) /\ l' = l + 1 /\ UNCHANGED <<tid, msgs, ref>>
  /\ LET e == Cur
         k == e.e
         hasx == k \in {"req", "rd", "dl", "stall", "done", "breq", "ereq", "bresp", "eresp"}
         ex == IF hasx /\ e.x \in XS THEN e.x ELSE 0
         rx == IF k = "rec" THEN XOfUri(e.uri) ELSE 0
     IN
     /\ reqRecorded' = IF k = "req" /\ ex > 0 THEN [reqRecorded EXCEPT ![ex] = @ \o e.data] ELSE reqRecorded
     /\ fresh'       = IF k = "req" /\ ex > 0 /\ "new" \in DOMAIN e THEN [fresh EXCEPT ![ex] = e.new] ELSE fresh
     /\ recorded'    = IF k = "rd" /\ ex > 0 THEN [recorded EXCEPT ![ex] = @ \o e.data] ELSE recorded
     /\ delivered'   = IF k = "dl" /\ ex > 0 THEN [delivered EXCEPT ![ex] = @ \o e.data] ELSE delivered
     /\ stalled'     = IF k = "stall" /\ ex > 0 THEN [stalled EXCEPT ![ex] = TRUE] ELSE stalled
     /\ outcome'     = IF k = "done" /\ ex > 0
                       THEN [outcome EXCEPT ![ex] = IF e.out \in Outcomes THEN e.out ELSE "other_error"]
                       ELSE outcome
     /\ connClosed'  = IF k = "done" /\ ex > 0 THEN [connClosed EXCEPT ![ex] = e.closed] ELSE connClosed
     /\ leftover'    = IF k = "done" /\ ex > 0 THEN [leftover EXCEPT ![ex] = e.left] ELSE leftover
     /\ unseen'      = IF k = "done" /\ ex > 0 THEN [unseen EXCEPT ![ex] = e.unseen] ELSE unseen
     /\ reqSent'     = IF k = "done" /\ ex > 0 THEN [reqSent EXCEPT ![ex] = e.srv] ELSE reqSent
     /\ pairs'       = IF k \in {"breq", "ereq", "bresp", "eresp"} /\ ex > 0
                       THEN [pairs EXCEPT ![ex][PairIdx(k)] = @ + 1] ELSE pairs
     /\ reqRecs'     = IF rx > 0 /\ e.t = "request" THEN [reqRecs EXCEPT ![rx] = @ + 1] ELSE reqRecs
     /\ reqBlock'    = IF rx > 0 /\ e.t = "request" THEN [reqBlock EXCEPT ![rx] = e.block] ELSE reqBlock
     /\ reqId'       = IF rx > 0 /\ e.t = "request" THEN [reqId EXCEPT ![rx] = e.id] ELSE reqId
     /\ respRecs'    = IF rx > 0 /\ e.t # "request" THEN [respRecs EXCEPT ![rx] = @ + 1] ELSE respRecs
     /\ respBlock'   = IF rx > 0 /\ e.t # "request" THEN [respBlock EXCEPT ![rx] = e.block] ELSE respBlock
     /\ linked'      = IF rx > 0 /\ e.t # "request"
                       THEN [linked EXCEPT ![rx] = (reqId[rx] # "" /\ e.conc = reqId[rx])] ELSE linked
     /\ respType'    = IF rx > 0 /\ e.t # "request" THEN [respType EXCEPT ![rx] = e.t] ELSE respType
     /\ warcBad'     = (warcBad \/ k = "warc_bad")
     /\ stray'       = IF k = "rec" /\ rx = 0 THEN stray + 1 ELSE stray
     /\ warcDone'    = (warcDone \/ k = "warc_end")

MSpec == MInit /\ [][MNext]_mvars

\* monitor-only clauses
\* the archive can be read back record by record (declared lengths and separators agree)
WarcParses == ~warcBad
\* revisit records (--warc-dedup: the table knows this URL with this payload): the block is the header part of what
\* was received - everything up to and including the first empty line - and nothing else; a revisit is written only
\* for an exchange the table was asked to treat so
Dedup == IF "dedup" \in DOMAIN Batch[tid] THEN {Batch[tid].dedup[i] : i \in DOMAIN Batch[tid].dedup} ELSE {}
EmptyLineEnd(b, i) == b[i] = 10 /\ (i = 1 \/ b[i - 1] = 10 \/ (b[i - 1] = 13 /\ (i = 2 \/ b[i - 2] = 10)))
HeadLen(b) == IF \E i \in 1..Len(b) : EmptyLineEnd(b, i)
              THEN CHOOSE i \in 1..Len(b) : EmptyLineEnd(b, i) /\ \A j \in 1..(i - 1) : ~EmptyLineEnd(b, j)
              ELSE Len(b)
HeadOf(b) == SubSeq(b, 1, HeadLen(b))
RevisitOK(x, b) == b = HeadOf(ref[x].bytes) \/ b = HeadOf(ref[x].ibytes \o ref[x].bytes)
RevisitBlocks == \A x \in XS : (warcDone /\ respType[x] = "revisit")
                                   => (x \in Dedup /\ (Clean(x) /\ Ok(x) => RevisitOK(x, respBlock[x])))
RecBlocksM == \A x \in XS : (warcDone /\ Ok(x) /\ reqRecs[x] = 1 /\ respRecs[x] = 1)
                                 => ((Clean(x) /\ respType[x] # "revisit" => RespOK(x, respBlock[x])) /\ reqBlock[x] = reqSent[x])
NoStray    == stray = 0
EventPairs == \A i \in XS : Ok(i) => pairs[i] = <<1, 1, 1, 1>>

ASSUME \A i \in 1..(2 * NT) : TLCSet(i, 0)

BadClause ==
  IF Batch[tid].prop = "C08"
  THEN IF ~NoHang THEN 6 ELSE IF ~TruncIsError THEN 2 ELSE IF ~Payload THEN 1 ELSE IF ~Persist THEN 5
       ELSE IF ~WholeMessage THEN 7 ELSE IF ~NoOverRead THEN 4 ELSE IF ~CompleteIsOk THEN 3 ELSE 0
  ELSE IF ~RespBytes THEN 11 ELSE IF ~ReqBytes THEN 12 ELSE IF ~EventPairs THEN 18 ELSE IF ~WarcParses THEN 19
       ELSE IF ~RecAtMostOne THEN 14
       ELSE IF ~RecCount THEN 13 ELSE IF ~RecBlocksM THEN 15 ELSE IF ~RevisitBlocks THEN 20 ELSE IF ~RecLinked THEN 16
       ELSE IF ~NoStray THEN 17 ELSE 0

Record ==
  /\ IF TLCGet(tid) < l THEN TLCSet(tid, l) ELSE TRUE
  /\ IF BadClause # 0 /\ TLCGet(NT + tid) = 0 THEN TLCSet(NT + tid, BadClause * 100000 + l) ELSE TRUE

Post == PrintT(<<"VERDICTS_BEGIN",
                 [i \in 1..NT |-> <<TLCGet(i) - 1, TLCGet(NT + i) \div 100000, TLCGet(NT + i) % 100000>>],
                 "VERDICTS_END">>)
=============================================================================
