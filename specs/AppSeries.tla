----------------------------- MODULE AppSeries -----------------------------
(***************************************************************************)
(* Implementation-shaped model of the layer above one Pipeline:            *)
(*   wpull/application/app.py   Application.run / stop / update_exit_code  *)
(*   wpull/pipeline/pipeline.py PipelineSeries (pipelines, concurrency     *)
(*                              setter, concurrency_pipelines)             *)
(* Each Pipeline is abstract here (its internals are Pipeline.tla): a      *)
(* source of kk[p] items taken at most one ahead of the queue, T tasks per *)
(* item, bodies completed / failed by the environment, the facts proved    *)
(* for one pipeline used as guards (no new item begins after stop; items   *)
(* in flight <= concurrency when one begins).                              *)
(*                                                                         *)
(* The model's data state IS the observation state of AppSeriesProps (st,  *)
(* taken, phase, effc ...) plus the control state below; every action      *)
(* folds the event it emits with Obs(e).  Application.run() executes       *)
(* "end of pipeline n, notification, skip test, begin of pipeline n+1"     *)
(* without suspending; the model splits it into single steps (a superset   *)
(* of the real interleavings with the environment).                        *)
(***************************************************************************)
EXTENDS AppSeriesProps

CONSTANTS NP,        \* number of pipelines in the series   (design check; np of a recorded trace is its own)
          TT,        \* tasks per pipeline
          CMax,      \* largest concurrency value
          XUse,      \* exception classes the environment raises (subset of XC)
          UecVals,   \* codes the embedder may pass to update_exit_code
          MaxStop, MaxConc, MaxRaise, MaxUec, MaxRun2    \* budgets of environment disturbances

VARIABLES
  ast,    \* Application._state: ready / running / stopping / stopped
  apc,    \* program counter of run(): idle / pick / inpipe / done
  cur,    \* Application._current_pipeline (0 = None)
  nxt,    \* next index of "for pipeline in self._pipeline_series.pipelines" (np+1: loop left)
  pst,    \* per pipeline: new / running / stopping / crashed / returned / failed / skipped
  perr,   \* exception class process() of the pipeline will raise ("none")
  dead,   \* dead[p]: items whose task raised (their worker is gone)
  code,   \* Application._exit_code
  sconc,  \* PipelineSeries._concurrency
  stops, concs, raises, uecs, run2s

ctlvars == <<ast, apc, cur, nxt, pst, perr, dead, code, sconc>>
budvars == <<stops, concs, raises, uecs, run2s>>
vars    == <<cfgvars, obsvars, ctlvars, budvars>>

NOP == [e |-> "nop"]

InitWith(n, t, skp0, reg0, kk0, pc0) ==
  /\ np = n /\ tt = t
  /\ skp = skp0 /\ reg = reg0 /\ kk = kk0
  /\ ObsInit(pc0)
  /\ ast = "ready" /\ apc = "idle" /\ cur = 0 /\ nxt = 0
  /\ pst = [p \in Pipes |-> "new"] /\ perr = [p \in Pipes |-> "none"] /\ dead = [p \in Pipes |-> {}]
  /\ code = 0 /\ sconc = 1
  /\ stops = 0 /\ concs = 0 /\ raises = 0 /\ uecs = 0 /\ run2s = 0

\* design check: every configuration of the skippable / registered flags; K items per source; Pipeline.concurrency 1
\* (the recorded traces and the generated scenarios also vary item counts 0..K and initial concurrencies)
Init == \E s \in [1..NP -> BOOLEAN], r \in [1..NP -> BOOLEAN], k \in [1..NP -> {K}], c \in [1..NP -> {1}] :
           InitWith(NP, TT, s, r, k, c)

-----------------------------------------------------------------------------
Ahead(p)   == {i \in taken[p] : st[p][i] = 0}                 \* taken from the source, not begun (queued / held)
Live(p)    == InFlight(st, p) \ dead[p]                       \* inside a task or between two tasks, worker alive
Unfin(p)   == {i \in taken[p] : st[p][i] < 2 * T}
MinOf(S)   == CHOOSE i \in S : \A j \in S : i <= j
NTaken(p)  == Cardinality(taken[p])
\* the producer is about to call get_item(): pipeline running, nothing held (at most the queued item is ahead)
SrcCall(p) == apc = "inpipe" /\ cur = p /\ pst[p] = "running" /\ Cardinality(Ahead(p)) < 2

(* ------------------------------ Application.run ------------------------- *)
Run ==
  /\ apc = "idle" /\ ast = "ready"
  /\ ast' = "running" /\ apc' = "pick" /\ nxt' = 1
  /\ Obs([e |-> "run", ok |-> TRUE])
  /\ UNCHANGED <<cur, pst, perr, dead, code, sconc, cfgvars, budvars>>

\* run() on an application that is not ready: RuntimeError, nothing changes
RunRejected ==
  /\ ast # "ready" /\ run2s < MaxRun2 /\ run2s' = run2s + 1
  /\ Obs([e |-> "run", ok |-> FALSE])
  /\ UNCHANGED <<ctlvars, cfgvars, stops, concs, raises, uecs>>

\* "if self._state == stopping and pipeline.skippable: continue"
PickSkip ==
  /\ apc = "pick" /\ nxt <= np /\ ast = "stopping" /\ skp[nxt]
  /\ cur' = nxt /\ nxt' = nxt + 1 /\ pst' = [pst EXCEPT ![nxt] = "skipped"]
  /\ Obs(NOP)
  /\ UNCHANGED <<ast, apc, perr, dead, code, sconc, cfgvars, budvars>>

\* pipeline_begin notification; pipeline.process() up to its first suspension
PickBegin ==
  /\ apc = "pick" /\ nxt <= np /\ ~(ast = "stopping" /\ skp[nxt])
  /\ cur' = nxt /\ pst' = [pst EXCEPT ![nxt] = "running"] /\ apc' = "inpipe"
  /\ Obs([e |-> "pbegin", p |-> nxt])
  /\ UNCHANGED <<ast, nxt, perr, dead, code, sconc, cfgvars, budvars>>

\* loop left (exhausted or break): _current_pipeline = None; state stopping, stopped; return exit code
Finish ==
  /\ apc = "pick" /\ nxt > np
  /\ cur' = 0 /\ ast' = "stopped" /\ apc' = "done"
  /\ Obs([e |-> "ret", code |-> code])
  /\ UNCHANGED <<nxt, pst, perr, dead, code, sconc, cfgvars, budvars>>

(* ------------------------------ one Pipeline, abstract ------------------ *)
Take(p) ==
  /\ SrcCall(p) /\ NTaken(p) < kk[p]
  /\ Obs([e |-> "src", p |-> p, k |-> "item", v |-> NTaken(p) + 1])
  /\ UNCHANGED <<ctlvars, cfgvars, budvars>>

\* the source is exhausted: the producer stops the pipeline when nothing is unfinished, otherwise it waits for
\* a worker and asks again
SrcNone(p) ==
  /\ SrcCall(p) /\ NTaken(p) = kk[p]
  /\ pst' = IF Unfin(p) = {} THEN [pst EXCEPT ![p] = "stopping"] ELSE pst
  /\ Obs([e |-> "src", p |-> p, k |-> "none"])
  /\ UNCHANGED <<ast, apc, cur, nxt, perr, dead, code, sconc, cfgvars, budvars>>

\* get_item() raises: _run_producer_wrapper stops the pipeline; process() re-raises once the workers are gone
SrcRaise(p, x) ==
  /\ SrcCall(p) /\ raises < MaxRaise /\ raises' = raises + 1
  /\ pst' = [pst EXCEPT ![p] = "stopping"] /\ perr' = [perr EXCEPT ![p] = x]
  /\ Obs([e |-> "src", p |-> p, k |-> "raise", x |-> x])
  /\ UNCHANGED <<ast, apc, cur, nxt, dead, code, sconc, cfgvars, stops, concs, uecs, run2s>>

\* a worker pops the oldest queued item and runs into task 1 (never after the pipeline was stopped: pills first)
Begin(p) ==
  /\ apc = "inpipe" /\ cur = p /\ pst[p] = "running" /\ Ahead(p) # {}
  /\ Cardinality(InFlight(st, p)) < effc[p]
  /\ Obs([e |-> "begin", p |-> p, i |-> MinOf(Ahead(p)), j |-> 1])
  /\ UNCHANGED <<ctlvars, cfgvars, budvars>>

EndOK(p, i) ==
  /\ apc = "inpipe" /\ cur = p /\ pst[p] \in {"running", "stopping"}
  /\ i \in Live(p) /\ st[p][i] % 2 = 1
  /\ Obs([e |-> "end", p |-> p, i |-> i, j |-> (st[p][i] + 1) \div 2, ok |-> TRUE])
  /\ UNCHANGED <<ctlvars, cfgvars, budvars>>

\* straight into the next task (same await-free block as the end of the previous one)
BeginNext(p, i) ==
  /\ apc = "inpipe" /\ cur = p /\ pst[p] \in {"running", "stopping"}
  /\ i \in Live(p) /\ st[p][i] % 2 = 0
  /\ Obs([e |-> "begin", p |-> p, i |-> i, j |-> st[p][i] \div 2 + 1])
  /\ UNCHANGED <<ctlvars, cfgvars, budvars>>

\* a task raises: the worker task ends with the exception.  Pipeline still in its "while running" wait: it surfaces
\* at once (task.result()).  Pipeline already told to stop: _shutdown_processing collects the workers' exceptions and
\* raises one of them once the items in flight have finished (which one is the set's business when several failed).
TaskRaise(p, i, x) ==
  /\ apc = "inpipe" /\ cur = p /\ pst[p] \in {"running", "stopping"}
  /\ i \in Live(p) /\ st[p][i] % 2 = 1
  /\ raises < MaxRaise /\ raises' = raises + 1
  /\ dead' = [dead EXCEPT ![p] = @ \cup {i}]
  /\ \/ pst' = [pst EXCEPT ![p] = "crashed"] /\ perr' = [perr EXCEPT ![p] = x]
     \/ pst[p] = "stopping" /\ UNCHANGED pst /\ perr' = [perr EXCEPT ![p] = x]
     \/ pst[p] = "stopping" /\ perr[p] # "none" /\ UNCHANGED <<pst, perr>>
  /\ Obs([e |-> "end", p |-> p, i |-> i, j |-> (st[p][i] + 1) \div 2, ok |-> FALSE, x |-> x])
  /\ UNCHANGED <<ast, apc, cur, nxt, code, sconc, cfgvars, stops, concs, uecs, run2s>>

\* process() returns: pipeline stopping, workers gone, producer finished; pipeline_end notification
PReturnOK(p) ==
  /\ apc = "inpipe" /\ cur = p /\ pst[p] = "stopping" /\ perr[p] = "none" /\ Live(p) = {}
  /\ pst' = [pst EXCEPT ![p] = "returned"] /\ apc' = "pick" /\ nxt' = p + 1
  /\ Obs([e |-> "pend", p |-> p])
  /\ UNCHANGED <<ast, cur, perr, dead, code, sconc, cfgvars, budvars>>

\* process() raises: except Exception -> _update_exit_code_from_error, crash message when unexpected, break
PFail(p) ==
  /\ apc = "inpipe" /\ cur = p
  /\ \/ pst[p] = "crashed"
     \/ pst[p] = "stopping" /\ perr[p] # "none" /\ Live(p) = {}
  /\ pst' = [pst EXCEPT ![p] = "failed"] /\ apc' = "pick" /\ nxt' = np + 1
  /\ code' = Merge(code, Code(perr[p]))
  /\ Obs(IF perr[p] = "U" THEN [e |-> "crashmsg"] ELSE NOP)
  /\ UNCHANGED <<ast, cur, perr, dead, sconc, cfgvars, budvars>>

(* ------------------------------ environment ----------------------------- *)
\* Application.stop(): acted on only in state running
StopAccepted ==
  /\ stops < MaxStop /\ stops' = stops + 1
  /\ ast = "running"
  /\ ast' = "stopping"
  /\ pst' = IF cur # 0 /\ pst[cur] = "running" THEN [pst EXCEPT ![cur] = "stopping"] ELSE pst
  /\ Obs([e |-> "astop"])
  /\ UNCHANGED <<apc, cur, nxt, perr, dead, code, sconc, cfgvars, concs, raises, uecs, run2s>>

StopIgnored ==
  /\ stops < MaxStop /\ stops' = stops + 1
  /\ ast # "running"
  /\ Obs([e |-> "astop"])
  /\ UNCHANGED <<ctlvars, cfgvars, concs, raises, uecs, run2s>>

\* PipelineSeries.concurrency = c: registered pipelines follow (running or not), the others keep theirs
SetConc(c) ==
  /\ concs < MaxConc /\ concs' = concs + 1 /\ c # sconc /\ apc # "done"
  /\ sconc' = c
  /\ Obs([e |-> "setc", c |-> c, pc |-> [p \in Pipes |-> IF reg[p] THEN c ELSE effc[p]]])
  /\ UNCHANGED <<ast, apc, cur, nxt, pst, perr, dead, code, cfgvars, stops, raises, uecs, run2s>>

\* the embedding code (a task, a plugin) reports an exit code
Uec(c) ==
  /\ uecs < MaxUec /\ uecs' = uecs + 1 /\ apc # "done"
  /\ code' = Merge(code, c)
  /\ Obs([e |-> "uec", c |-> c])
  /\ UNCHANGED <<ast, apc, cur, nxt, pst, perr, dead, sconc, cfgvars, stops, concs, raises, run2s>>

-----------------------------------------------------------------------------
\* (quantified over the constant 1..NP = Pipes of the design check, so that TLC reports coverage per action)
SysNext ==
  \/ Run \/ PickSkip \/ PickBegin \/ Finish
  \/ \E p \in 1..NP : Take(p) \/ SrcNone(p) \/ Begin(p) \/ PReturnOK(p) \/ PFail(p)
  \/ \E p \in 1..NP, i \in Items : EndOK(p, i) \/ BeginNext(p, i)

EnvNext ==
  \/ StopAccepted \/ StopIgnored \/ RunRejected
  \/ \E c \in 0..CMax : SetConc(c)
  \/ \E c \in UecVals : Uec(c)
  \/ \E p \in 1..NP, x \in XUse : SrcRaise(p, x)
  \/ \E p \in 1..NP, i \in Items, x \in XUse : TaskRaise(p, i, x)

Next == SysNext \/ EnvNext

\* SrcNone with unfinished items changes nothing (the producer waits and asks again): not a <SysNext>_vars step
Spec == Init /\ [][Next]_vars /\ WF_vars(SysNext)

-----------------------------------------------------------------------------
Terminal    == apc = "done"
LegitPaused == apc = "inpipe" /\ cur # 0 /\ pst[cur] = "running" /\ effc[cur] = 0
\* progress possible without the environment's disturbances (a SrcNone that only waits is not progress);
\* written as the guards of the SysNext actions
Progress ==
  \/ (apc = "idle" /\ ast = "ready") \/ apc = "pick"
  \/ \E p \in Pipes :
        \/ SrcCall(p) /\ (NTaken(p) < kk[p] \/ Unfin(p) = {})
        \/ apc = "inpipe" /\ cur = p /\ pst[p] = "running" /\ Ahead(p) # {} /\ Cardinality(InFlight(st, p)) < effc[p]
        \/ apc = "inpipe" /\ cur = p /\ pst[p] \in {"running", "stopping"} /\ Live(p) # {}
        \/ apc = "inpipe" /\ cur = p /\ pst[p] = "stopping" /\ Live(p) = {}
        \/ apc = "inpipe" /\ cur = p /\ pst[p] = "crashed"
NoHang == Progress \/ Terminal \/ LegitPaused

Finishes    == <>(Terminal \/ LegitPaused)
StopReturns == stopAcc ~> (Terminal \/ LegitPaused)

\* consistency of control state and observation state
CodeOK == returned = "ret" => retcode = code
StateOK == /\ mstate = ast
           /\ (cur # 0 /\ apc = "inpipe") => phase[cur] = "begun"
TypeOK ==
  /\ ast \in {"ready", "running", "stopping", "stopped"} /\ apc \in {"idle", "pick", "inpipe", "done"}
  /\ cur \in 0..np /\ nxt \in 0..(np + 1) /\ code \in 0..8 /\ sconc \in 0..CMax
  /\ \A p \in Pipes : pst[p] \in {"new", "running", "stopping", "crashed", "returned", "failed", "skipped"}
  /\ \A p \in Pipes : perr[p] \in XC \cup {"none"}
=============================================================================
