---------------------------- MODULE FtpScopeMon ----------------------------
(***************************************************************************)
(* Observation monitor for the FTP part of C02.                            *)
(*                                                                         *)
(* One trace = one COMPLETE crawl of the real wpull against the scripted   *)
(* FTP server.  Header (hdr) = the scenario: the server's tree, the server *)
(* flavour, the options and the start URLs.  Events = every command with a *)
(* path argument the server received (LIST MLSD NLST CWD STAT MLST RETR    *)
(* SIZE MDTM), in order, with the path as a sequence of names.             *)
(*                                                                         *)
(* The reference sets "may be listed" (ml), "may be retrieved" (mr) and    *)
(* the documented exception "parent directory of a start URL that was      *)
(* written without a trailing slash" (pe) are computed here, by TLC, from   *)
(* the header alone with PART A of FtpScope.tla (RefOf).  Nothing the      *)
(* crawler reports about itself is used.                                   *)
(*                                                                         *)
(* Clause OutOfScope (the C02 violation): a command for a path that is in  *)
(*   none of ml, mr (and, for a listing command, pe).  Recorded with the   *)
(*   rule the path fails (RuleOfPath).                                     *)
(* Clause RetrievedAgain (violation, rule "Tries"): a second RETR for the   *)
(*   same path (every crawl runs with --tries 1).                          *)
(* Clause KindMismatch (drift only): the path is in scope but is asked for *)
(*   with the other kind of command.                                       *)
(* Requesting LESS than the reference is never judged here.                *)
(***************************************************************************)
EXTENDS FtpScope, IOUtils, TLCExt

Batch == JsonDeserialize(IOEnv.TRACE_FILE)
NT    == Len(Batch)

VARIABLES tid, l, got, lst
mvars == <<vars, tid, l, got, lst>>

Ev  == Batch[tid].ev
Cur == Ev[l]

\* the model variables of FtpScope are not used by the monitor, except sc (the header) and ref (the reference)
MInit ==
  /\ tid \in 1..NT /\ l = 1
  /\ sc = Batch[tid].hdr
  /\ ref = RefOf(Batch[tid].hdr)
  /\ tbl = <<>> /\ wk = <<>> /\ cache = {} /\ cmds = {}
  /\ got = {} /\ lst = {}

\* got = the paths for which a RETR was seen, lst = the paths for which LIST or MLSD was seen
MNext ==
  /\ l <= Len(Ev) /\ l' = l + 1
  /\ got' = IF Cur.e = "cmd" /\ Cur.c = "RETR" THEN got \cup {Cur.p} ELSE got
  /\ lst' = IF Cur.e = "cmd" /\ Cur.c \in {"LIST", "MLSD"} THEN lst \cup {Cur.p} ELSE lst
  /\ UNCHANGED <<tid, vars>>

MSpec == MInit /\ [][MNext]_mvars

\* registers: i -> furthest line; NT+i -> set of rules (indices into RuleNames) of OutOfScope commands;
\* 2NT+i -> line of the first OutOfScope command; 3NT+i -> line of the first KindMismatch;
\* 4NT+i -> 1 if the finished crawl asked for LESS than the reference allows (information only, never a verdict)
ASSUME \A i \in 1..NT : /\ TLCSet(i, 0) /\ TLCSet(NT + i, {}) /\ TLCSet(2 * NT + i, 0) /\ TLCSet(3 * NT + i, 0)
                        /\ TLCSet(4 * NT + i, 0)

IsCmd == l <= Len(Ev) /\ Cur.e = "cmd"
\* Clause RetrievedAgain (rule "Tries"): every crawl runs with --tries 1 and every file has one URL, so a second
\* RETR for the same path means that a URL was requested again after its tries were used up
Again == IsCmd /\ Cur.c = "RETR" /\ Cur.p \in got
Record ==
  /\ IF TLCGet(tid) < l THEN TLCSet(tid, l) ELSE TRUE
  /\ IF Again /\ InScope(ref, Cur.c, Cur.p)
     THEN /\ TLCSet(NT + tid, TLCGet(NT + tid) \cup {9})
          /\ (IF TLCGet(2 * NT + tid) = 0 THEN TLCSet(2 * NT + tid, l) ELSE TRUE)
     ELSE TRUE
  /\ IF IsCmd /\ ~InScope(ref, Cur.c, Cur.p)
     THEN /\ TLCSet(NT + tid, TLCGet(NT + tid) \cup {RuleOfPath(sc, Cur.p)})
          /\ (IF TLCGet(2 * NT + tid) = 0 THEN TLCSet(2 * NT + tid, l) ELSE TRUE)
     ELSE TRUE
  /\ IF IsCmd /\ InScope(ref, Cur.c, Cur.p) /\ ~KindOK(ref, Cur.c, Cur.p) /\ TLCGet(3 * NT + tid) = 0
     THEN TLCSet(3 * NT + tid, l) ELSE TRUE
  /\ IF l <= Len(Ev) /\ Cur.e = "end" /\ ((ref.mr \ got) # {} \/ (ref.ml \ lst) # {})
     THEN TLCSet(4 * NT + tid, 1) ELSE TRUE

RECURSIVE Pow2(_)
Pow2(n) == IF n = 0 THEN 1 ELSE 2 * Pow2(n - 1)
RECURSIVE MaskOf(_)
MaskOf(S) == IF S = {} THEN 0 ELSE LET x == CHOOSE y \in S : TRUE IN Pow2(x - 1) + MaskOf(S \ {x})

\* <<lines consumed, rule mask + 1000 * (kind mismatch seen) + 2000 * (asked for less), line of the first violation>>
Post == PrintT(<<"VERDICTS_BEGIN",
                 [i \in 1..NT |-> <<TLCGet(i) - 1,
                                    MaskOf(TLCGet(NT + i)) + (IF TLCGet(3 * NT + i) > 0 THEN 1000 ELSE 0)
                                                           + (IF TLCGet(4 * NT + i) > 0 THEN 2000 ELSE 0),
                                    TLCGet(2 * NT + i)>>],
                 "VERDICTS_END">>)
=============================================================================
