---------------------------- MODULE UrlNormGen ----------------------------
(***************************************************************************)
(* C10 / C11 scenario generator and design check.                          *)
(*                                                                         *)
(* A two-step machine enumerates one cluster of the structured input space *)
(* of UrlNorm.tla: Init picks the first dimension of the cluster (one      *)
(* initial state per catalogue entry, so TLC's workers share the work),    *)
(* Expand picks the remaining dimensions and produces a *family*: the base *)
(* input followed by its Variants (respellings that must normalise to the  *)
(* same string).  Every family is printed as JSON (the scenarios the       *)
(* driver replays into the real wpull.url code), and - when Check is on -  *)
(* the transcription Norm is evaluated on every member and the C10/C11     *)
(* properties are checked on it as invariants (design check).              *)
(*                                                                         *)
(* Known gaps of the code as it is are modelled (Fix* constants of         *)
(* UrlNorm); the invariants accept exactly the corresponding input classes *)
(* (Gap* below) until the constants are switched to TRUE.                  *)
(***************************************************************************)
EXTENDS UrlNorm, Json

CONSTANTS Cluster,       \* "A0" | "A1" | "A2" | "A3" | "B" | "C" | "D" | "E" | "S" | "SH" | "S2"
          SampleMod,     \* 1: everything; n: boundary cases + those with Hash % n = SampleRem
          SampleRem,
          VKinds,        \* kinds of Variants(base) included in the families ({}: none)
          Check,         \* evaluate Norm and the properties (design check)
          EmitOn         \* print the families

VARIABLES st, i1, fam, res, res2
vars == <<st, i1, fam, res, res2>>

-----------------------------------------------------------------------------
NoUser == UserCat[1]
HostH  == HostCat[1]
Http   == SchemeCat[1]
NoPort(dp) == PortAt(dp, 1)
Range(f) == {f[i] : i \in DOMAIN f}
Strs(C, k) == UNION {[1..n -> Range(C)] : n \in 0..k}
B0(b, al) == [b |-> b, al |-> al]

HostsByText(ts) == {i \in 1..Len(HostCat) : HostCat[i].t \in ts}
HostsA2 == HostsByText({S("h"), S("[::1]"), S("127.0.0.1"), <<>>})
HostsA3 == HostsByText({S("h"), S("a.x"), S("localhost"), S("[::1]"), <<>>})
tP == S("/p")
HKTU == 65391   \* HALFWIDTH KATAKANA LETTER SMALL TU: the octet 2F ("/") in ISO-2022-JP-EXT
HKYO == 65390   \* HALFWIDTH KATAKANA LETTER SMALL YO: the octet 2E (".")
EncPaths == {<<SLASH, 120, SLASH, HKTU, HKTU>>, <<SLASH, 120, SLASH, 121, HKTU, HKYO, HKYO, HKTU, 122>>, <<SLASH, 184, 21673>>,
             <<SLASH, EAC>>, S("/a/") \o <<EAC>> \o S("/b"), <<SLASH, FWX>>, <<SLASH, SUR>>, S("/a b"), S("/%e9"), S("/%C3%A9")}
EncQFs   == {<<QM, EAC>>, <<HASH, EAC>>, S("?a=") \o <<EAC>> \o S("&b=%e9"), S("?c d#e f"), <<QM, FWX>>, <<HASH, SUR>>}

\* path text of a segment list
PathOf3(segs, trail) == <<SLASH>> \o Join(segs, SLASH) \o (IF trail THEN <<SLASH>> ELSE <<>>)

NonAsciiHosts == {i \in 1..Len(HostCat) : ~AllAscii(HostCat[i].t)}
EncBases(enc) ==
  {Base(Http, NoUser, HostCat[i], NoPort(Http.dp), tP, <<>>, enc) : i \in NonAsciiHosts}
  \cup {Base(Http, NoUser, HostH, NoPort(Http.dp), pa, <<>>, enc) :
          pa \in EncPaths}
  \cup {Base(Http, NoUser, HostH, NoPort(Http.dp), tP, qf, enc) :
          qf \in EncQFs}
  \cup {Base(Http, UserCat[i], HostH, NoPort(Http.dp), tP, <<>>, enc) :
          i \in {j \in 1..Len(UserCat) : UserCat[j].k \in {"nonascii", "escaped-utf8", "escaped-latin1", "surrogate", "user-pass"}}}

N1 == CASE Cluster = "A0" -> 4
        [] Cluster = "A1" -> Len(HostCat)
        [] Cluster = "A2" -> Len(UserCat)
        [] Cluster = "A3" -> Len(SchemeCat)
        [] Cluster = "B"  -> Len(SegCat) + 1
        [] Cluster = "C"  -> Len(QFClasses) + 1
        [] Cluster = "D"  -> Len(HostCat)
        [] Cluster = "E"  -> Len(EncCat)
        [] Cluster = "S"  -> Len(SoupClasses) + 1
        [] Cluster = "SH" -> Len(SoupClasses) + 1
        [] Cluster = "S2" -> Len(Soup2Classes) + 1

Raw(text, tags) == [sc |-> text, dp |-> <<>>, ui |-> <<>>, ho |-> <<>>, hg |-> 0, po |-> <<>>, pk |-> "raw",
                    pa |-> <<>>, qf |-> <<>>, enc |-> "utf-8", tags |-> tags]

\* the bases of the cluster whose first dimension has index i
Bases(i) ==
  CASE Cluster = "A0" ->      \* every catalogue entry once, the other dimensions at their defaults
         (IF i = 1 THEN {B0(Base(SchemeCat[j], NoUser, HostH, NoPort(SchemeCat[j].dp), tP, <<>>, "utf-8"), TRUE) : j \in 1..Len(SchemeCat)}
          ELSE IF i = 2 THEN {B0(Base(Http, UserCat[j], HostH, NoPort(Http.dp), tP, <<>>, "utf-8"), TRUE) : j \in 1..Len(UserCat)}
          ELSE IF i = 3 THEN {B0(Base(Http, NoUser, HostCat[j], NoPort(Http.dp), tP, <<>>, "utf-8"), TRUE) : j \in 1..Len(HostCat)}
          ELSE {B0(Base(SchemeCat[s], NoUser, HostH, PortAt(SchemeCat[s].dp, j), tP, <<>>, "utf-8"), TRUE) :
                   s \in 1..3, j \in 1..NPorts})
    [] Cluster = "A1" ->      \* scheme x userinfo? x host x port
         {B0(Base(SchemeCat[s], UserCat[u], HostCat[i], PortAt(SchemeCat[s].dp, p), tP, <<>>, "utf-8"), FALSE) :
             s \in 1..NMainSchemes, u \in 1..2, p \in 1..NPorts}
    [] Cluster = "A2" ->      \* userinfo forms
         {B0(Base(SchemeCat[s], UserCat[i], HostCat[h], PortAt(SchemeCat[s].dp, p), tP, <<>>, "utf-8"), TRUE) :
             s \in {1, 3}, h \in HostsA2, p \in {1, 3}}
    [] Cluster = "A3" ->      \* scheme forms
         {B0(Base(SchemeCat[i], UserCat[u], HostCat[h], PortAt(SchemeCat[i].dp, p), tP, <<>>, "utf-8"), TRUE) :
             u \in {1, 3}, h \in HostsA3, p \in {1, 2, 3, 9}}
         \* ... and a colon further on in the text (without a scheme: is what precedes it taken for one?)
         \cup {B0(Base(SchemeCat[i], NoUser, HostCat[h], NoPort(SchemeCat[i].dp), S("/Pub/File:1"), qf, "utf-8"), TRUE) :
                 h \in HostsA3, qf \in {<<>>, S("?Q=A&t=12:30")}}
    [] Cluster = "B" ->       \* paths of <= 3 catalogue segments, with / without trailing slash
         (IF i = 1 THEN {B0(Base(Http, NoUser, HostH, NoPort(Http.dp), pa, <<>>, "utf-8"), TRUE) : pa \in {<<>>, <<SLASH>>}}
          ELSE LET s1 == i - 1
                   segsets == {<<s1>>} \cup {<<s1, s2>> : s2 \in 1..Len(SegCat)}
                              \cup {<<s1, s2, s3>> : s2 \in 1..Len(SegCat), s3 \in 1..Len(SegCat)} IN
               {B0([Base(Http, NoUser, HostH, NoPort(Http.dp),
                         PathOf3([k \in 1..Len(sg) |-> SegCat[sg[k]]], tr), <<>>, "utf-8")
                      EXCEPT !.tags = [k \in 1..Len(sg) |-> SegKind[sg[k]]]],
                   Len(sg) < 3) : sg \in segsets, tr \in BOOLEAN})
    [] Cluster = "C" ->       \* query / fragment strings <= 4 over 8 classes
         (IF i = 1 THEN {B0(Base(Http, NoUser, HostH, NoPort(Http.dp), tP, <<>>, "utf-8"), TRUE)}
          ELSE {B0(Base(Http, NoUser, HostH, NoPort(Http.dp), tP, <<QFClasses[i - 1]>> \o r, "utf-8"), Len(r) < 3) :
                   r \in Strs(QFClasses, 3)})
    [] Cluster = "D" ->       \* authority x covering paths x query/fragment shapes
         {B0(Base(SchemeCat[s], NoUser, HostCat[i], PortAt(SchemeCat[s].dp, p), CrossPaths[a], CrossQF[q], "utf-8"), FALSE) :
             s \in {1, 3, 5}, p \in 1..4, a \in 1..Len(CrossPaths), q \in 1..Len(CrossQF)}
    [] Cluster = "E" ->       \* non-ASCII text under the document encodings
         {B0(b, TRUE) : b \in EncBases(EncCat[i])}
    [] Cluster = "S" ->       \* soup: every string <= 5 over the 10 delimiter classes
         (IF i = 1 THEN {B0(Raw(<<>>, <<"soup">>), TRUE)}
          ELSE {B0(Raw(<<SoupClasses[i - 1]>> \o r, <<"soup">>), Len(r) < 4) : r \in Strs(SoupClasses, 4)})
    [] Cluster = "SH" ->      \* "http://" + soup <= 4
         (IF i = 1 THEN {B0(Raw(Http.t, <<"http-soup">>), TRUE)}
          ELSE {B0(Raw(Http.t \o <<SoupClasses[i - 1]>> \o r, <<"http-soup">>), Len(r) < 3) : r \in Strs(SoupClasses, 3)})
    [] Cluster = "S2" ->      \* soup with a letter, a digit and a space: <= 4 over 13 classes
         (IF i = 1 THEN {B0(Raw(<<SPC>>, <<"soup2">>), TRUE)}
          ELSE {B0(Raw(<<Soup2Classes[i - 1]>> \o r, <<"soup2">>), Len(r) < 3) : r \in Strs(Soup2Classes, 3)})

Keep(x) == SampleMod = 1 \/ x.al \/ Hash(Render(x.b)) % SampleMod = SampleRem

Family(b) == [cl |-> Cluster, tags |-> b.tags, enc |-> b.enc,
              m  |-> << <<"base", Render(b)>> >> \o (IF VKinds = {} THEN <<>> ELSE SelectSeq(Variants(b), LAMBDA v : v[1] \in VKinds))]

NoRes == <<>>
SecondPass(r, enc) == IF r.oc = "value" /\ r.net THEN Norm(r.url, enc) ELSE [oc |-> "none"]

Init == st = "open" /\ i1 \in 1..N1 /\ fam = <<>> /\ res = NoRes /\ res2 = NoRes

Expand ==
  /\ st = "open"
  /\ \E x \in {y \in Bases(i1) : Keep(y)} :
       /\ fam' = Family(x.b)
       /\ res' = IF Check THEN [k \in 1..Len(fam'.m) |-> Norm(fam'.m[k][2], fam'.enc)] ELSE NoRes
       /\ res2' = IF Check THEN [k \in 1..Len(fam'.m) |-> SecondPass(res'[k], fam'.enc)] ELSE NoRes
  /\ st' = "done" /\ UNCHANGED i1

Next == Expand
Spec == Init /\ [][Next]_vars

\* scenario output (CONSTRAINT; always TRUE)
Emit == (st = "done" /\ EmitOn) => PrintT(ToJson(fam))

-----------------------------------------------------------------------------
(* Design check: the properties on the transcription.                       *)

Members == 1..Len(res)
IsNet(r) == r.oc = "value" /\ r.net
Text(k) == fam.m[k][2]
Kind(k) == fam.m[k][1]

\* ---- input classes of the findings the code has today (each tied to its Fix constant)
HasMixedEsc(t) == \E i \in 1..Len(t) : t[i] = PCT /\ i + 2 <= Len(t) /\ IsHex(t[i + 1]) /\ IsHex(t[i + 2])
                                        /\ ~(IsLowHex(t[i + 1]) /\ IsLowHex(t[i + 2]))
                                        /\ (IsLowerAZ(t[i + 1]) \/ IsLowerAZ(t[i + 2]))
\* finding 7: an escape with a lower-case and an upper-case/other hex digit survives un-normalised
GapPctCase(k) == ~FixPctCase /\ IsNet(res[k]) /\ HasMixedEsc(res[k].url)
\* finding 8: the host only becomes an IPv4 spelling after IDNA mapping / lower-casing
GapIdnaFirst(k) == ~FixIdnaFirst /\ IsNet(res[k]) /\ NormIpv4(res[k].hostname).ok /\ NormIpv4(res[k].hostname).v # res[k].hostname
\* userinfo: "%25xx" is decoded to "%xx", written back unescaped, and decoded again by the next pass
GapUserPct(k) == ~FixUserPct /\ IsNet(res[k]) /\ (Has(res[k].username, PCT) \/ Has(res[k].password, PCT))
\* userinfo is always re-encoded as UTF-8, whatever the document encoding
GapUserEnc(k) == ~FixUserPct /\ fam.enc # "utf-8" /\ IsNet(res[k]) /\ (~AllAscii(res[k].username) \/ ~AllAscii(res[k].password))
\* an IPv6 zone identifier keeps its case
GapScope(k) == IsNet(res[k]) /\ res[k].v6 /\ Has(res[k].hostname, PCT)

MTotal == \A k \in Members : res[k].oc \in {"value", "valueerror", "urlerror", "unmodelled"}

MIsAscii   == \A k \in Members : IsNet(res[k]) => IsAscii(res[k].url)
MNoWsC0    == \A k \in Members : IsNet(res[k]) => NoWsC0(res[k].url)
MLower     == \A k \in Members : IsNet(res[k]) => (LowerSchemeHost(res[k].url) \/ GapScope(k))
MPort      == \A k \in Members : IsNet(res[k]) => DefaultPortOmitted(res[k].url)
MSegments  == \A k \in Members : IsNet(res[k]) => NoDotOrEmptySegments(res[k].url)
MEscapes   == \A k \in Members : IsNet(res[k]) => (EscapesUpper(res[k].url) \/ GapPctCase(k))
MIdempotent == \A k \in Members : IsNet(res[k]) =>
                 \/ (res2[k].oc = "value" /\ res2[k].url = res[k].url)
                 \/ GapIdnaFirst(k) \/ GapUserPct(k) \/ GapUserEnc(k)
\* ... and when the normalised (ASCII) URL is parsed again without knowing the document encoding
MIdempotentAnyEnc == \A k \in Members : IsNet(res[k]) =>
                 \/ (LET r3 == SecondPass(res[k], "utf-8") IN r3.oc = "value" /\ r3.url = res[k].url)
                 \/ GapIdnaFirst(k) \/ GapUserPct(k) \/ GapUserEnc(k)
MRoundTrip == \A k \in Members : IsNet(res[k]) =>
                 \/ /\ IsNet(res2[k])
                    /\ res2[k].scheme = res[k].scheme /\ res2[k].hostname = res[k].hostname /\ res2[k].port = res[k].port
                    /\ res2[k].path = res[k].path /\ res2[k].query = res[k].query
                 \/ GapIdnaFirst(k)
\* variants: same outcome, same string (both non-network "values" are out of C10's scope)
Agree(r, v) == IF IsNet(r) \/ IsNet(v) THEN IsNet(r) /\ IsNet(v) /\ r.url = v.url
               ELSE (r.oc = "value") = (v.oc = "value")
MVariants  == \A k \in Members :
                 \/ Agree(res[1], res[k])
                 \/ "unmodelled" \in {res[1].oc, res[k].oc}
                 \/ GapPctCase(1) \/ GapPctCase(k) \/ GapIdnaFirst(1) \/ GapIdnaFirst(k)
                 \/ (Kind(k) = "case" /\ (GapScope(1) \/ GapScope(k)))

TypeOK == st \in {"open", "done"} /\ i1 \in 1..N1
=============================================================================
