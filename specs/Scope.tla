-------------------------------- MODULE Scope --------------------------------
(***************************************************************************)
(* C02 - the scope rules, stated declaratively from the documented meaning *)
(* of each option, over an abstract link record.                           *)
(*                                                                         *)
(*   c : configuration  [recursive, pagereq, level, prlevel, noparent,     *)
(*        spanhosts, spanpr, spanlp, domacc, domrej, hostacc, hostrej,     *)
(*        httpsonly, followftp, tries, rxacc, rxrej, diracc, dirrej,       *)
(*        sufacc, sufrej, strong]                                          *)
(*   r : link record   [scheme, pscheme, hostc, phostc, sameport, level,   *)
(*        inline, try, prel, rxa, rxr, da, dr, sfa, sfr, noname, redirect] *)
(*                                                                         *)
(* ActiveFilters(c) mirrors which rules the options switch on; F(name,c,r) *)
(* is the verdict of one rule; Verdict = conjunction; Waiver = the single  *)
(* documented exception (redirect target, strong redirects, only the       *)
(* span-hosts rule fails); MayRequest = Verdict \/ Waiver.                 *)
(***************************************************************************)
EXTENDS Naturals, FiniteSets, Sequences, TLC

Names == {"Scheme", "Recursive", "FollowFTP", "Parent", "Domain", "Hostname", "Tries", "Level", "Regex",
          "Directory", "Filename", "SpanHosts"}

Active(c) ==
  {"Scheme", "Recursive", "FollowFTP", "SpanHosts"}
  \cup (IF c.noparent THEN {"Parent"} ELSE {})
  \cup (IF c.domacc \/ c.domrej THEN {"Domain"} ELSE {})
  \cup (IF c.hostacc \/ c.hostrej THEN {"Hostname"} ELSE {})
  \cup (IF c.tries > 0 THEN {"Tries"} ELSE {})
  \cup (IF (c.level > 0 /\ c.recursive) \/ c.prlevel > 0 THEN {"Level"} ELSE {})
  \cup (IF c.rxacc \/ c.rxrej THEN {"Regex"} ELSE {})
  \cup (IF c.diracc \/ c.dirrej THEN {"Directory"} ELSE {})
  \cup (IF c.sufacc \/ c.sufrej THEN {"Filename"} ELSE {})

Web(s) == s \in {"http", "https"}
StartHost(h) == h = "start"
\* host classes: "start" (a start URL's host), "sub" (a sub-domain of it), "acc" (on the accept lists),
\* "rej" (on the reject lists), "other"
InDomAcc(h) == h \in {"start", "sub", "acc"}      \* accepted domain list = {start domain, acc domain}
InDomRej(h) == h = "rej"
InHostAcc(h) == h \in {"start", "acc"}            \* accepted hostname list = {start host, acc host} (exact names)
InHostRej(h) == h = "rej"

F(name, c, r) ==
  CASE name = "Scheme"    -> IF c.httpsonly THEN r.scheme = "https" ELSE r.scheme \in {"http", "https", "ftp"}
    [] name = "Recursive" -> r.level = 0 \/ (IF r.inline > 0 THEN c.pagereq ELSE c.recursive)
    [] name = "FollowFTP" -> (r.scheme = "ftp" /\ Web(r.pscheme)) => c.followftp
    [] name = "Parent"    -> r.inline > 0 \/ r.prel \in {"same", "below", "elsewhere"}
    [] name = "Domain"    -> (c.domacc => InDomAcc(r.hostc)) /\ (c.domrej => ~InDomRej(r.hostc))
    [] name = "Hostname"  -> (c.hostacc => InHostAcc(r.hostc)) /\ (c.hostrej => ~InHostRej(r.hostc))
    [] name = "Tries"     -> r.try < c.tries
    [] name = "Level"     -> /\ (c.prlevel > 0 /\ r.inline > 0) => r.inline <= c.prlevel
                             /\ c.level > 0 => r.level <= c.level + (IF r.inline > 0 THEN 2 ELSE 0)
    [] name = "Regex"     -> (c.rxacc => r.rxa) /\ (c.rxrej => ~r.rxr)
    [] name = "Directory" -> (c.diracc => r.da) /\ (c.dirrej => ~r.dr)
    [] name = "Filename"  -> r.noname \/ ((c.sufacc => r.sfa) /\ (c.sufrej => ~r.sfr))
    [] name = "SpanHosts" -> \/ c.spanhosts \/ StartHost(r.hostc)
                             \/ (c.spanpr /\ r.inline > 0)
                             \/ (c.spanlp /\ StartHost(r.phostc))

Failed(c, r)  == {n \in Active(c) : ~F(n, c, r)}
Verdict(c, r) == Failed(c, r) = {}
Waiver(c, r)  == r.redirect /\ c.strong /\ Failed(c, r) = {"SpanHosts"}
MayRequest(c, r) == Verdict(c, r) \/ Waiver(c, r)
=============================================================================
