---------------------------- MODULE ConnPoolProps ----------------------------
(***************************************************************************)
(* C12 stated over observation variables only.  Shared by the              *)
(* implementation-shaped model (ConnPool.tla), the strict trace spec       *)
(* (ConnPoolTrace.tla) and the observation monitor (ConnPoolMon.tla).      *)
(*                                                                         *)
(* Everything here can be seen from outside the pool: the public           *)
(* host_pools mapping with the ready / busy sets, the waiter counters,     *)
(* closed() of each connection, who called acquire()/release() and what    *)
(* came back, and whether the event loop has anything left to run.         *)
(***************************************************************************)
EXTENDS Naturals, FiniteSets, Sequences, TLC

CONSTANTS N,      \* clients
          H,      \* host keys
          M,      \* max_host_count: connections per host
          CMax    \* connection-id pool

Clients == 1..N
Keys    == 1..H
Conns   == 1..CMax

VARIABLES
  present,   \* [Keys -> BOOLEAN]        the key is in ConnectionPool.host_pools
  ready,     \* [Keys -> SUBSET Conns]   HostPool.ready  (idle connections)
  busy,      \* [Keys -> SUBSET Conns]   HostPool.busy   (checked-out connections)
  waiters,   \* [Keys -> Nat]            ConnectionPool._host_pool_waiters
  cstat,     \* [Conns -> {"up","dn","ex"}]  not closed() / closed() / closed by the remote end while idle
  holders,   \* [Conns -> SUBSET Clients] clients that were handed the connection and have not given it back
  inAcq,     \* [Clients -> 0..H]        key of the acquire() call the client is inside of (0: none)
  inRel,     \* [Clients -> BOOLEAN]     the client is inside an awaited release()
  rpend,     \* set of no_wait_release tasks that have not finished
  owed,      \* connections whose release()/no_wait_release() was called and has not finished
  quiet      \* the event loop has nothing left to run (all wake-ups delivered)

AllOf(k) == ready[k] \cup busy[k]

\* ---- never shares
Mutex    == \A x \in Conns : Cardinality(holders[x]) <= 1
HeldBusy == \A x \in Conns : holders[x] # {} => \E k \in Keys : present[k] /\ x \in busy[k]
Disjoint == /\ \A k \in Keys : ready[k] \cap busy[k] = {}
            /\ \A k1, k2 \in Keys : k1 # k2 => AllOf(k1) \cap AllOf(k2) = {}

\* ---- every checked-out connection is accounted for: in the hands of a client, on its way back (release called and
\*      not finished), or on its way out (some client is inside acquire() for that key)
BusyAccounted == \A k \in Keys : \A x \in busy[k] :
                    holders[x] # {} \/ x \in owed \/ \E c \in Clients : inAcq[c] = k

\* ---- never over-allocates
Bound == \A k \in Keys : Cardinality(busy[k]) <= M

\* ---- the waiter counter never exceeds the clients that are actually inside acquire() for that key
WaitersAccounted == \A k \in Keys : waiters[k] <= Cardinality({c \in Clients : inAcq[c] = k})

\* ---- a waiting client obtains a connection as soon as one is free: when the loop has nothing left to run, a
\*      client still inside acquire(k) is waiting for good reason - every slot of k is checked out AND in the hands
\*      of a client (not leaked, not stuck in a release that cannot finish)
WaiterServed ==
  quiet => \A c \in Clients : inAcq[c] # 0 =>
              LET k == inAcq[c] IN /\ present[k]
                                   /\ Cardinality(busy[k]) >= M
                                   /\ \A x \in busy[k] : holders[x] # {}

\* ---- never deadlocks: giving a connection back never blocks
ReleaseCompletes == quiet => (rpend = {} /\ \A c \in Clients : ~inRel[c])

\* ---- never leaks: once every client has finished and every release ran, nothing is checked out, no waiter is
\*      counted, and what is kept is kept for a live idle connection (DESIGN 7: a connection that the remote end
\*      closed while it was idle is excused until the next clean())
AllFinished == /\ quiet /\ rpend = {}
               /\ \A c \in Clients : inAcq[c] = 0 /\ ~inRel[c]
               /\ \A x \in Conns : holders[x] = {}
NoLeak ==
  AllFinished => \A k \in Keys :
                   /\ busy[k] = {} /\ waiters[k] = 0
                   /\ present[k]  => (ready[k] # {} /\ \A x \in ready[k] : cstat[x] \in {"up", "ex"})
                   /\ ~present[k] => ready[k] = {}
=============================================================================
