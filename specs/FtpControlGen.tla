--------------------------- MODULE FtpControlGen ---------------------------
(***************************************************************************)
(* Scenario generation (spec -> code): FtpControl.tla plus a history of    *)
(* the environment's choices (the request, every reply the server sends,   *)
(* how the control stream is cut, what happens on the data connection and  *)
(* when, the next session).  Every finished behaviour prints its history   *)
(* as JSON; drivers/ftpcontrol.py turns it into a server script and plays  *)
(* it against the real wpull FTP client.  Used exhaustively (small         *)
(* constants: every server strategy) and with -simulate (all shapes, all   *)
(* cuts).                                                                  *)
(***************************************************************************)
EXTENDS FtpControl, Json

CONSTANT Bias   \* TRUE (simulation): the server answers so that the client goes on, except at one pre-chosen reply

VARIABLES hist, gaveup,
          failAt, nrep    \* (Bias) index of the reply that may be a refusal; replies sent so far
gvars == <<vars, hist, gaveup, failAt, nrep>>

H(x) == hist' = Append(hist, x) /\ UNCHANGED <<gaveup, failAt>>

\* would the client go on after this reply?
GoodReply(bs) ==
  LET r == RefAssemble(bs) IN
  CASE cpc = "r_welcome" -> r.code = 220
    [] cpc = "r_user"    -> r.code \in {230, 331}
    [] cpc = "r_pass"    -> r.code = 230
    [] cpc = "r_type"    -> r.code = 200
    [] cpc = "r_pasv"    -> r.code = 227 /\ Contains(r.text, A1)
    [] cpc = "r_begin"   -> r.code \in {150, 125} \/ (bcmd = "MLSD" /\ r.code \in {500, 502})
    [] OTHER             -> TRUE
Biased(bs) == ~Bias \/ nrep = failAt \/ GoodReply(bs)
New == SubSeq(wire', Len(wire) + 1, Len(wire'))

GInit == /\ Init /\ gaveup = FALSE /\ nrep = 0 /\ failAt \in (IF Bias THEN 0..12 ELSE {0})
         /\ hist = <<[k |-> "session", mode |-> mode, restart |-> restart, user |-> user, pass |-> pass, path |-> path]>>

GNext ==
  /\ ~gaveup
  /\ \/ ClientNext /\ UNCHANGED <<hist, gaveup, failAt, nrep>>
     \/ \E n \in 1..Len(wire) : Deliver(n) /\ H([k |-> "cut", n |-> n]) /\ UNCHANGED nrep
     \/ ServerReply /\ Biased(New) /\ nrep' = nrep + 1
          /\ H([k |-> "reply", b |-> New, xfer |-> (xfer' /\ ~xfer), drop |-> FALSE])
     \/ ServerDrop /\ (~Bias \/ nrep = failAt) /\ nrep' = nrep + 1
          /\ IF finalSent' /\ ~finalSent
             THEN H([k |-> "final", b |-> New, eager |-> (cpc = "r_begin"), drop |-> TRUE])
             ELSE H([k |-> "reply", b |-> New, xfer |-> FALSE, drop |-> TRUE])
     \/ ServerFinal /\ H([k |-> "final", b |-> New, eager |-> (cpc = "r_begin"), drop |-> FALSE]) /\ nrep' = nrep + 1
     \/ \E n \in 1..MaxData : DataSend(n) /\ H([k |-> "data", n |-> n]) /\ UNCHANGED nrep
     \/ DataClose /\ H([k |-> "close"]) /\ UNCHANGED nrep
     \/ \E u \in {user, <<98>>}, m \in {"file", "listing"} :
          NextSession(u, m) /\ UNCHANGED nrep
          /\ H([k |-> "session", mode |-> m, restart |-> FALSE, user |-> u, pass |-> pass, path |-> path])
     \* the server stops talking in the middle of a transfer (data connection left open / no closing reply)
     \/ cpc \in {"data", "r_final"} /\ (~Bias \/ nrep = failAt) /\ gaveup' = TRUE /\ UNCHANGED <<vars, hist, failAt, nrep>>

GSpec == GInit /\ [][GNext]_gvars

Over == cpc \in {"error", "crash"} \/ (cpc = "done" /\ sess = MaxSess) \/ gaveup

\* print the script once the run is over
Emit == IF Over
        THEN PrintT(<<"SCRIPT", ToJson(hist)>>) /\ FALSE
        ELSE TRUE
=============================================================================
