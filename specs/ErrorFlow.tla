----------------------------- MODULE ErrorFlow -----------------------------
(***************************************************************************)
(* C09 - "nothing a server sends can end the crawl".                        *)
(*                                                                         *)
(* Exception-kind propagation through wpull, AS WRITTEN.  An exception of   *)
(* some KIND is born at a SITE (a place in the code where remote data is    *)
(* interpreted, or where the network is touched).  On its way up it passes  *)
(* the try/except blocks ("frames") that enclose the site, innermost first: *)
(*    primitive (Connection.run_network_operation)                          *)
(*    -> stream / chunked reader / decoder                                  *)
(*    -> http | ftp session              (+ observation points)             *)
(*    -> web session / robots checker / scrapers                            *)
(*    -> processor session (_fetch_one, _process_robots, FTP _fetch)        *)
(*    -> ProcessTask -> Worker -> Pipeline (task.result()) -> Application.run*)
(* Each frame's except clauses are transcribed from the source (file:line   *)
(* in the comments).  Route(site) is the list of frames that enclose the    *)
(* site; Apply(frame, kind) is what the frame does with a kind.             *)
(*                                                                         *)
(* Terminal outcomes: absorbed (an inner layer swallowed the error: the     *)
(* fetch goes on), per_url_error (the processor marked the item error /     *)
(* skipped; the crawl continues), pipeline_break (an exception that         *)
(* Application.run calls "expected" reached it: the crawl ends with an exit *)
(* code), crash (any other class: "Sorry, Wpull unexpectedly crashed").     *)
(*                                                                         *)
(* The exception class hierarchy is that of CPython 3.12 + wpull/errors.py. *)
(***************************************************************************)
EXTENDS Naturals, Sequences, FiniteSets, TLC

CONSTANTS SSLVerify,    \* --check-certificate: ResultRule.handle_error re-raises SSLVerificationError (rule.py:357)
          Fixes         \* which of the proposed repairs (fixes_proposed/C09-*.diff) the tree under test contains;
                        \* {} = the tree as found.  The driver detects them from the source text.

FixNames == {"chunk_readline",     \* chunked.py: readline after a chunk / in the trailer: except ValueError -> ProtocolError
             "trailer_lenient",    \* stream.py: fields.parse(trailer, strict=False)
             "ftp_reply_readline", \* ftp/stream.py read_reply: except ValueError -> ProtocolError
             "ftp_two_finals",     \* ftp/request.py Reply.parse: ProtocolError instead of assert
             "msdos_short",        \* ftp/ls/listing.py parse_msdos: ListingError for a line with < 4 fields
             "ftp_parent",         \* processor/ftp.py: except REMOTE_ERRORS around _prepare_request_file_vs_dir
             "charset_codec",      \* string.py try_decoding: except LookupError
             "last_modified",      \* writer.py set_timestamp: unparseable Last-Modified ignored
             "win_names",          \* path.py safe_filename windows: names ending in "." or " "
             "sitemap_gzip",       \* scraper/sitemap.py: except OSError, EOFError, zlib.error
             "pasv_range",         \* ftp/util.py parse_address: numbers above 255 are a ValueError
             "deflate_fallback",   \* decompression.py: raw-deflate fallback replays everything fed so far (C19 repair)
             "perm_listing",       \* processor/ftp.py: except REMOTE_ERRORS around _apply_unix_permissions (--preserve-permissions)
             "symlink_create",     \* processor/ftp.py _make_symlink: except (OSError, ValueError) around os.symlink
             "writer_names",       \* writer.py open_file: a name that cannot be used (too long, too deep, a directory, NUL) -> ProtocolError
             "continue_refused"}   \* writer.py: a refused --continue is a ProtocolError; the handlers tolerate a response without body
ASSUME Fixes \subseteq FixNames
Fixed(n) == n \in Fixes

-----------------------------------------------------------------------------
(* ---- exception kinds and the class hierarchy ---- *)
Kinds == {"Exception",
          "ValueError", "UnicodeError", "ProtocolError", "ServerError", "AuthenticationError", "FTPServerError",
          "ListingError",
          "OSError", "NetworkError", "ConnectionRefused", "DNSNotFound", "NetworkTimedOut", "DurationTimeout",
          "SSLVerificationError", "TimeoutError", "OSConnRefused", "BadGzipFile", "SSLCertError",
          "EOFError", "IncompleteRead", "ZlibError",
          "LookupError", "KeyError", "IndexError",
          "AttributeError", "TypeError", "AssertionError", "OverflowError", "RuntimeError", "RecursionError"}

\* direct base classes (ssl.CertificateError = SSLCertVerificationError(SSLError, ValueError): two bases;
\* asyncio.TimeoutError is builtins.TimeoutError, an OSError, since 3.11;
\* OSConnRefused = an OSError whose errno is ECONNREFUSED: run_network_operation looks at the errno)
Bases(k) ==
  CASE k = "Exception" -> {}
    [] k \in {"UnicodeError", "ProtocolError", "ServerError", "ListingError"} -> {"ValueError"}
    [] k \in {"AuthenticationError", "FTPServerError"} -> {"ServerError"}
    [] k \in {"NetworkError", "SSLVerificationError", "TimeoutError", "OSConnRefused", "BadGzipFile"} -> {"OSError"}
    [] k \in {"ConnectionRefused", "DNSNotFound", "NetworkTimedOut"} -> {"NetworkError"}
    [] k = "DurationTimeout" -> {"NetworkTimedOut"}
    [] k = "SSLCertError" -> {"OSError", "ValueError"}
    [] k = "IncompleteRead" -> {"EOFError"}
    [] k \in {"KeyError", "IndexError"} -> {"LookupError"}
    [] k = "RecursionError" -> {"RuntimeError"}
    [] OTHER -> {"Exception"}

RECURSIVE Ancestors(_)
Ancestors(k) == {k} \cup UNION {Ancestors(b) : b \in Bases(k)}

Is(k, c)     == c \in Ancestors(k)              \* isinstance(exc of kind k, class c)
IsAny(k, S)  == \E c \in S : Is(k, c)

REMOTE   == {"ServerError", "ProtocolError", "SSLVerificationError", "NetworkError"}     \* processor/base.py:18
EXPECTED == {"ServerError", "ProtocolError", "SSLVerificationError", "DNSNotFound", "ConnectionRefused",
             "NetworkError", "OSError"}                                               \* application/app.py:51

-----------------------------------------------------------------------------
(* ---- frames: the try/except blocks, transcribed ---- *)
Raise(k)  == [t |-> "raise", k |-> k]
Absorb    == [t |-> "absorb", k |-> "none"]
Handled   == [t |-> "handled", k |-> "none"]

Layer(f) ==
  CASE f = "NetOp" -> "primitive"
    [] f \in {"ReadRespReadline", "ChunkHdrReadline", "ChunkTailReadline", "FtpReplyReadline", "ChunkSizeInt",
              "ContentLengthInt", "Decompress", "Flush", "CloseOnError"} -> "stream"
    [] f \in {"DownloadWaitFor", "FtpDownloadWaitFor", "FtpLogin", "FtpSize", "FtpSizeInt", "FtpPasv", "FtpMlsd",
              "FtpListingParse", "ObsHttpStart", "ObsHttpDownload", "ObsFtpStart", "ObsFtpDownload",
              "ObsFtpListing"} -> "session"
    [] f \in {"WebRedirect", "RobotsFetch", "RobotsReadContent", "ObsRobots"} -> "web"
    [] f \in {"HtmlScrape", "TextScrape", "SitemapScrape", "UrljoinSafe", "ParseUrlOrLog", "ObsScrapeInfo"} -> "scraper"
    [] f \in {"FetchOne", "FetchOneNoBody", "ProcessRobots", "FtpFetch", "FtpFetchNoBody", "FtpParentStart",
              "FtpParentCatch", "FtpPermCatch", "SymlinkCatch"} -> "processor"
    [] f = "ProcessTask" -> "task"
    [] f = "Worker" -> "worker"
    [] f = "PipelineResult" -> "pipeline"
    [] f = "AppRun" -> "app"

\* ResultRule.handle_error inside "except REMOTE_ERRORS" (web.py:308, web.py:218, ftp.py:298; rule.py:340-366)
ProcessorCatch(k) ==
  IF IsAny(k, REMOTE)
  THEN IF SSLVerify /\ Is(k, "SSLVerificationError") THEN Raise(k) ELSE Handled
  ELSE Raise(k)

Apply(f, k) ==
  CASE f = "NetOp" ->                           \* network/connection.py:302-356 run_network_operation
         IF Is(k, "TimeoutError") THEN Raise("NetworkTimedOut")
         ELSE IF Is(k, "SSLCertError") \/ Is(k, "SSLVerificationError") THEN Raise("SSLVerificationError")
         ELSE IF Is(k, "AttributeError") THEN Raise("NetworkError")
         ELSE IF Is(k, "OSError")
              THEN IF Is(k, "NetworkError") THEN Raise(k)
                   ELSE IF k = "OSConnRefused" THEN Raise("ConnectionRefused")
                   ELSE Raise("NetworkError")
         ELSE Raise(k)
    [] f \in {"ReadRespReadline", "ChunkHdrReadline", "ChunkSizeInt", "ChunkTailReadline", "FtpReplyReadline"} ->
         \* protocol/http/stream.py:153-158, chunked.py:41-45, chunked.py:50-54: except ValueError -> ProtocolError
         \* (ChunkTailReadline, FtpReplyReadline exist only in a repaired tree)
         IF Is(k, "ValueError") THEN Raise("ProtocolError") ELSE Raise(k)
    [] f = "ContentLengthInt" ->                \* stream.py:262-275: except ValueError: warn, read until close
         IF Is(k, "ValueError") THEN Absorb ELSE Raise(k)
    [] f \in {"Decompress", "Flush"} ->         \* stream.py:397-419: except zlib.error -> ProtocolError
         IF Is(k, "ZlibError") THEN Raise("ProtocolError") ELSE Raise(k)
    [] f = "CloseOnError" -> Raise(k)           \* protocol/abstract/stream.py close_stream_on_error: close, re-raise
    [] f \in {"DownloadWaitFor", "FtpDownloadWaitFor"} ->
         \* http/client.py:152-158, ftp/client.py:283-291: except asyncio.TimeoutError -> DurationTimeout
         IF Is(k, "TimeoutError") THEN Raise("DurationTimeout") ELSE Raise(k)
    [] f = "WebRedirect" ->                     \* http/web.py:159-176: except ValueError -> ProtocolError
         IF Is(k, "ValueError") THEN Raise("ProtocolError") ELSE Raise(k)
    [] f = "RobotsFetch" ->                     \* http/robots.py:83-89: except ProtocolError: accept as blank
         IF Is(k, "ProtocolError") THEN Absorb ELSE Raise(k)
    [] f = "RobotsReadContent" ->               \* http/robots.py:127-133: except ValueError: accept as blank
         IF Is(k, "ValueError") THEN Absorb ELSE Raise(k)
    [] f = "HtmlScrape" ->                      \* scraper/html.py:107-121 (html5lib parser_error = ValueError)
         IF Is(k, "UnicodeError") \/ Is(k, "ValueError") THEN Absorb ELSE Raise(k)
    [] f = "SitemapScrape" ->                   \* scraper/sitemap.py:37-50
         IF Is(k, "UnicodeError") \/ Is(k, "ValueError") THEN Absorb
         ELSE IF Fixed("sitemap_gzip") /\ (Is(k, "OSError") \/ Is(k, "EOFError") \/ Is(k, "ZlibError")) THEN Absorb
         ELSE Raise(k)
    [] f = "TextScrape" ->                      \* scraper/css.py:46-62, javascript.py:65-87: except UnicodeError
         IF Is(k, "UnicodeError") THEN Absorb ELSE Raise(k)
    [] f \in {"UrljoinSafe", "ParseUrlOrLog"} ->  \* scraper/util.py:73-83, url.py:402-415: except ValueError: warn
         IF Is(k, "ValueError") THEN Absorb ELSE Raise(k)
    [] f = "FtpLogin" ->                        \* ftp/client.py:107-111: except FTPServerError -> AuthenticationError
         IF Is(k, "FTPServerError") THEN Raise("AuthenticationError") ELSE Raise(k)
    [] f \in {"FtpSize", "FtpParentStart"} ->   \* ftp/client.py:387-391; processor/ftp.py:228-236: except FTPServerError
         IF Is(k, "FTPServerError") THEN Absorb ELSE Raise(k)
    [] f = "FtpSizeInt" ->                      \* ftp/command.py:236-239: except ValueError: return None
         IF Is(k, "ValueError") THEN Absorb ELSE Raise(k)
    [] f = "FtpPasv" ->                         \* ftp/command.py:118-121: except ValueError -> ProtocolError
         IF Is(k, "ValueError") THEN Raise("ProtocolError") ELSE Raise(k)
    [] f = "FtpMlsd" -> Raise(k)                \* ftp/client.py:176-184: FTPServerError 500/502 falls back to LIST,
                                                \* any other reply code is re-raised (the lenient, non-absorbing branch)
    [] f = "FtpListingParse" ->                 \* ftp/client.py:350: except (ListingError, ValueError) -> ProtocolError
         IF Is(k, "ListingError") \/ Is(k, "ValueError") THEN Raise("ProtocolError") ELSE Raise(k)
    [] f \in {"FetchOne", "ProcessRobots", "FtpFetch", "FtpParentCatch"} -> ProcessorCatch(k)
    [] f \in {"FetchOneNoBody", "FtpFetchNoBody"} ->
                                                \* web.py:318, ftp.py:324 "if response: response.body.close()" while
                                                \* response.body is still None (the error was born between Session.start and
                                                \* the Body); repaired: "if response and response.body"
         IF Fixed("continue_refused") THEN ProcessorCatch(k)
         ELSE IF IsAny(k, REMOTE) /\ ~(SSLVerify /\ Is(k, "SSLVerificationError")) THEN Raise("AttributeError") ELSE Raise(k)
    [] f = "FtpPermCatch" ->                    \* ftp.py _fetch else-branch (repaired tree): the mode bits are optional
         IF IsAny(k, REMOTE) THEN Absorb ELSE Raise(k)
    [] f = "SymlinkCatch" ->                    \* ftp.py _make_symlink (repaired tree): a link that cannot be made is skipped
         IF Is(k, "OSError") \/ Is(k, "ValueError") THEN Absorb ELSE Raise(k)
    [] f \in {"ProcessTask", "Worker", "PipelineResult"} -> Raise(k)   \* no except clause on the way (download.py:492,
                                                \* pipeline.py:119,135; task.result() at pipeline.py:236 re-raises)
    [] f = "AppRun" ->                          \* application/app.py:157-180: except Exception
         IF IsAny(k, EXPECTED) THEN [t |-> "break", k |-> k] ELSE [t |-> "crash", k |-> k]
    [] OTHER -> Raise(k)                        \* observation points: transparent

ObsFrames == {"ObsHttpStart", "ObsHttpDownload", "ObsFtpStart", "ObsFtpDownload", "ObsFtpListing", "ObsRobots",
              "ObsScrapeInfo"}

-----------------------------------------------------------------------------
(* ---- sites and the frames that enclose them (innermost first) ---- *)
UpTail == <<"ProcessTask", "Worker", "PipelineResult", "AppRun">>

HttpStartTail == <<"ObsHttpStart", "FetchOne">>
HttpDlTail    == <<"CloseOnError", "DownloadWaitFor", "ObsHttpDownload", "FetchOne">>
RobStartTail  == <<"ObsHttpStart", "RobotsFetch", "ObsRobots", "ProcessRobots">>
RobDlTail     == <<"CloseOnError", "DownloadWaitFor", "ObsHttpDownload", "RobotsFetch", "ObsRobots", "ProcessRobots">>

\* frames that exist only in a repaired tree
ChunkTail    == IF Fixed("chunk_readline") THEN <<"ChunkTailReadline">> ELSE <<>>
FtpReplyTail == IF Fixed("ftp_reply_readline") THEN <<"FtpReplyReadline">> ELSE <<>>
ParentTail   == IF Fixed("ftp_parent") THEN <<"FtpParentCatch">> ELSE <<>>
PermTail     == IF Fixed("perm_listing") THEN <<"FtpPermCatch">> ELSE <<>>
SymlinkTail  == IF Fixed("symlink_create") THEN <<"SymlinkCatch">> ELSE <<>>

Inner(s) ==
  CASE \* ---------------- HTTP, page fetch (processor/web.py _fetch_one)
       s = "h_connect"             -> <<"NetOp">> \o HttpStartTail                 \* connection.py connect via stream.reconnect
    [] s = "h_hdr_readline"        -> <<"NetOp", "ReadRespReadline", "CloseOnError">> \o HttpStartTail
    [] s = "h_status_parse"        -> <<"CloseOnError">> \o HttpStartTail           \* request.py:236 parse_status_line
    [] s = "h_fields_parse"        -> <<"CloseOnError">> \o HttpStartTail           \* namevalue.py:30 parse (strict=False)
    [] s = "h_redirect_load"       -> <<"FetchOne">>                                \* web.py:141 _process_response
    [] s = "h_redirect_next"       -> <<"WebRedirect", "FetchOne">>                 \* web.py:159-176
    [] s = "h_cookie_extract"      -> <<"FetchOne">>                                \* web.py:152 _extract_cookies
    [] s = "h_writer_process_response" -> <<"FetchOneNoBody">>                      \* web.py:297 (writer.py:200)
    [] s = "h_body_read"           -> <<"NetOp">> \o HttpDlTail                     \* stream.py:228,280
    [] s = "h_content_length_parse" -> <<"ContentLengthInt">> \o HttpDlTail         \* stream.py:263
    [] s = "h_chunk_hdr_readline"  -> <<"NetOp", "ChunkHdrReadline">> \o HttpDlTail \* chunked.py:42
    [] s = "h_chunk_size_parse"    -> <<"ChunkSizeInt">> \o HttpDlTail              \* chunked.py:51
    [] s = "h_chunk_body_read"     -> <<"NetOp">> \o HttpDlTail                     \* chunked.py:82
    [] s = "h_chunk_nl_readline"   -> <<"NetOp">> \o ChunkTail \o HttpDlTail        \* chunked.py:93  (no except ValueError)
    [] s = "h_trailer_readline"    -> <<"NetOp">> \o ChunkTail \o HttpDlTail        \* chunked.py:117 (no except ValueError)
    [] s = "h_trailer_parse"       -> HttpDlTail                                    \* stream.py:364 fields.parse(trailer)
    [] s = "h_decompress"          -> <<"Decompress">> \o HttpDlTail
    [] s = "h_flush"               -> <<"Flush">> \o HttpDlTail
       \* ---- the "else:" branch of _fetch_one and process(): OUTSIDE the try
    [] s = "h_request_filename"    -> <<>>                                          \* web.py:183 -> writer.py:168 process_request
    [] s = "h_save_document"       -> <<>>                                          \* web.py:421 save_document (set_timestamp)
    [] s = "h_scrape_encoding"     -> <<"ObsScrapeInfo">>                           \* html.py:105 detect_response_encoding (before try)
    [] s = "h_scrape_html"         -> <<"HtmlScrape", "ObsScrapeInfo">>
    [] s = "h_scrape_text"         -> <<"TextScrape", "ObsScrapeInfo">>             \* css.py / javascript.py
    [] s = "h_scrape_sitemap"      -> <<"SitemapScrape", "ObsScrapeInfo">>
    [] s = "h_scrape_double"       -> <<"ObsScrapeInfo">>                           \* any scraper of the demux raising directly
    [] s = "h_urljoin"             -> <<"UrljoinSafe", "HtmlScrape", "ObsScrapeInfo">>
    [] s = "h_child_url_parse"     -> <<"ParseUrlOrLog">>                           \* rule.py:564
       \* ---------------- robots.txt fetch (web.py _process_robots -> robots.py)
    [] s = "r_connect"             -> <<"NetOp">> \o RobStartTail
    [] s = "r_hdr_readline"        -> <<"NetOp", "ReadRespReadline", "CloseOnError">> \o RobStartTail
    [] s = "r_status_parse"        -> <<"CloseOnError">> \o RobStartTail
    [] s = "r_fields_parse"        -> <<"CloseOnError">> \o RobStartTail
    [] s = "r_body_read"           -> <<"NetOp">> \o RobDlTail
    [] s = "r_decompress"          -> <<"Decompress">> \o RobDlTail
    [] s = "r_flush"               -> <<"Flush">> \o RobDlTail
    [] s = "r_chunk_nl_readline"   -> <<"NetOp">> \o ChunkTail \o RobDlTail                    \* chunked.py:93,117 reached from robots.py
    [] s = "r_trailer_parse"       -> RobDlTail
    [] s = "r_redirect_next"       -> <<"WebRedirect", "RobotsFetch", "ObsRobots", "ProcessRobots">>
    [] s = "r_status_5xx"          -> <<"ObsRobots", "ProcessRobots">>              \* robots.py:93 raise ServerError
    [] s = "r_parse"               -> <<"RobotsReadContent", "ObsRobots", "ProcessRobots">>
       \* ---------------- FTP, the fetch proper (processor/ftp.py _fetch)
    [] s = "f_connect"             -> <<"NetOp", "ObsFtpStart", "FtpFetch">>
    [] s = "f_reply_readline"      -> <<"NetOp">> \o FtpReplyTail \o <<"CloseOnError", "ObsFtpStart", "FtpFetch">>   \* ftp/stream.py:135
    [] s = "f_reply_parse"         -> <<"CloseOnError", "ObsFtpStart", "FtpFetch">>            \* ftp/request.py:77-93
    [] s = "f_reply_code"          -> <<"ObsFtpStart", "FtpFetch">>                            \* command.py raise_if_not_match
    [] s = "f_login_code"          -> <<"FtpLogin", "ObsFtpStart", "FtpFetch">>
    [] s = "f_size_code"           -> <<"FtpSize", "ObsFtpStart", "FtpFetch">>
    [] s = "f_size_parse"          -> <<"FtpSizeInt", "ObsFtpStart", "FtpFetch">>
    [] s = "f_pasv_parse"          -> <<"FtpPasv", "ObsFtpStart", "FtpFetch">>
    [] s = "f_data_connect"        -> <<"NetOp", "ObsFtpStart", "FtpFetch">>
    [] s = "f_mlsd_code"           -> <<"FtpMlsd", "ObsFtpStart", "FtpFetch">>
    [] s = "f_data_read"           -> <<"NetOp", "CloseOnError", "FtpDownloadWaitFor", "ObsFtpDownload", "FtpFetch">>
    [] s = "f_end_readline"        -> <<"NetOp">> \o FtpReplyTail \o <<"CloseOnError", "FtpDownloadWaitFor", "ObsFtpDownload", "FtpFetch">>
    [] s = "f_end_code"            -> <<"FtpDownloadWaitFor", "ObsFtpDownload", "FtpFetch">>
    [] s = "f_listing_parse"       -> <<"FtpListingParse", "ObsFtpListing", "FtpFetch">>
    [] s = "f_add_links"           -> <<>>                                          \* ftp.py:307 _handle_response (else branch)
       \* ---------------- FTP, listing of the parent directory (ftp.py:147 _prepare_request_file_vs_dir):
       \*                  NOT inside "except REMOTE_ERRORS" (DESIGN section 6, finding 21)
    [] s = "fp_connect"            -> <<"NetOp", "ObsFtpStart", "FtpParentStart">> \o ParentTail
    [] s = "fp_reply_readline"     -> <<"NetOp">> \o FtpReplyTail \o <<"CloseOnError", "ObsFtpStart", "FtpParentStart">> \o ParentTail
    [] s = "fp_reply_parse"        -> <<"CloseOnError", "ObsFtpStart", "FtpParentStart">> \o ParentTail
    [] s = "fp_reply_code"         -> <<"ObsFtpStart", "FtpParentStart">> \o ParentTail
    [] s = "fp_login_code"         -> <<"FtpLogin", "ObsFtpStart", "FtpParentStart">> \o ParentTail
    [] s = "fp_pasv_parse"         -> <<"FtpPasv", "ObsFtpStart", "FtpParentStart">> \o ParentTail
    [] s = "fp_data_connect"       -> <<"NetOp", "ObsFtpStart", "FtpParentStart">> \o ParentTail
    [] s = "fp_data_read"          -> <<"NetOp", "CloseOnError", "FtpDownloadWaitFor", "ObsFtpDownload">> \o ParentTail
    [] s = "fp_end_code"           -> <<"FtpDownloadWaitFor", "ObsFtpDownload">> \o ParentTail
    [] s = "fp_listing_parse"      -> <<"FtpListingParse", "ObsFtpListing">> \o ParentTail
       \* ---------------- FTP, --preserve-permissions: the parent directory is listed AFTER the file was saved
       \*                  (ftp.py _fetch "else:" branch -> _apply_unix_permissions -> _fetch_parent_path): outside the try
    [] s = "pp_connect"            -> <<"NetOp", "ObsFtpStart", "FtpParentStart">> \o PermTail
    [] s = "pp_reply_readline"     -> <<"NetOp">> \o FtpReplyTail \o <<"CloseOnError", "ObsFtpStart", "FtpParentStart">> \o PermTail
    [] s = "pp_reply_parse"        -> <<"CloseOnError", "ObsFtpStart", "FtpParentStart">> \o PermTail
    [] s = "pp_reply_code"         -> <<"ObsFtpStart", "FtpParentStart">> \o PermTail
    [] s = "pp_pasv_parse"         -> <<"FtpPasv", "ObsFtpStart", "FtpParentStart">> \o PermTail
    [] s = "pp_data_connect"       -> <<"NetOp", "ObsFtpStart", "FtpParentStart">> \o PermTail
    [] s = "pp_data_read"          -> <<"NetOp", "CloseOnError", "FtpDownloadWaitFor", "ObsFtpDownload">> \o PermTail
    [] s = "pp_end_code"           -> <<"FtpDownloadWaitFor", "ObsFtpDownload">> \o PermTail
    [] s = "pp_listing_parse"      -> <<"FtpListingParse", "ObsFtpListing">> \o PermTail
       \* ---------------- FTP, --retr-symlinks=off: os.symlink with names taken from the listing (ftp.py _make_symlink,
       \*                  reached from _handle_response in the "else:" branch)
    [] s = "f_symlink"             -> SymlinkTail
       \* ---------------- --continue refused by the server (writer.py _raise_cannot_continue_error, reached from
       \*                  process_response INSIDE the try of _fetch_one / _fetch, before the response has a body)
    [] s = "h_writer_continue"     -> <<"FetchOneNoBody">>
    [] s = "f_writer_continue"     -> <<"FtpFetchNoBody">>

Sites == {"h_connect", "h_hdr_readline", "h_status_parse", "h_fields_parse", "h_redirect_load", "h_redirect_next",
          "h_cookie_extract", "h_writer_process_response", "h_body_read", "h_content_length_parse",
          "h_chunk_hdr_readline", "h_chunk_size_parse", "h_chunk_body_read", "h_chunk_nl_readline",
          "h_trailer_readline", "h_trailer_parse", "h_decompress", "h_flush", "h_request_filename",
          "h_save_document", "h_scrape_encoding", "h_scrape_html", "h_scrape_text", "h_scrape_sitemap",
          "h_scrape_double", "h_urljoin", "h_child_url_parse",
          "r_connect", "r_hdr_readline", "r_status_parse", "r_fields_parse", "r_body_read", "r_decompress",
          "r_flush", "r_chunk_nl_readline", "r_trailer_parse", "r_redirect_next", "r_status_5xx", "r_parse",
          "f_connect", "f_reply_readline", "f_reply_parse", "f_reply_code", "f_login_code", "f_size_code",
          "f_size_parse", "f_pasv_parse", "f_data_connect", "f_mlsd_code", "f_data_read", "f_end_readline",
          "f_end_code", "f_listing_parse", "f_add_links",
          "fp_connect", "fp_reply_readline", "fp_reply_parse", "fp_reply_code", "fp_login_code", "fp_pasv_parse",
          "fp_data_connect", "fp_data_read", "fp_end_code", "fp_listing_parse",
          "pp_connect", "pp_reply_readline", "pp_reply_parse", "pp_reply_code", "pp_pasv_parse", "pp_data_connect",
          "pp_data_read", "pp_end_code", "pp_listing_parse", "f_symlink", "h_writer_continue", "f_writer_continue"}

Route(s) == Inner(s) \o UpTail

-----------------------------------------------------------------------------
(* ---- the prediction as a function (used by the monitor and cross-checked against the step semantics) ---- *)
RECURSIVE Flow(_, _, _)
\* result: [out |-> outcome, k |-> kind that reached Application.run or "none", seen |-> obs point -> kind]
Flow(s, k, i) ==
  LET r == Route(s) IN
  IF i > Len(r) THEN [out |-> "crash", k |-> k]             \* cannot happen: AppRun is terminal
  ELSE LET a == Apply(r[i], k) IN
       CASE a.t = "raise"   -> Flow(s, a.k, i + 1)
         [] a.t = "absorb"  -> [out |-> "absorbed", k |-> "none"]
         [] a.t = "handled" -> [out |-> "per_url_error", k |-> "none"]
         [] a.t = "break"   -> [out |-> "pipeline_break", k |-> a.k]
         [] a.t = "crash"   -> [out |-> "crash", k |-> a.k]

Predict(s, k) == Flow(s, k, 1)

\* the kind that leaves observation point p (a frame name of ObsFrames) for an error of kind k born at s;
\* "none" if it never gets there (absorbed below, or p is not on the route)
RECURSIVE KindAt(_, _, _, _)
KindAt(s, k, i, p) ==
  LET r == Route(s) IN
  IF i > Len(r) THEN "none"
  ELSE IF r[i] = p THEN k
  ELSE LET a == Apply(r[i], k) IN
       IF a.t = "raise" THEN KindAt(s, a.k, i + 1, p) ELSE "none"

PredictAt(s, k, p) == KindAt(s, k, 1, p)

-----------------------------------------------------------------------------
(* ---- which kinds remote input can actually provoke at a site (read off the code; witnesses in            *)
(*      drivers/errorflow_gen.py: every pair listed here is reproduced with real bytes by binding (b)/(c),  *)
(*      except the network-level ones, which a peer provokes by resetting / stalling the connection)        *)
NetKinds == {"OSError", "OSConnRefused", "TimeoutError", "NetworkError", "NetworkTimedOut", "ConnectionRefused"}

ProvokableAt(s) ==
  CASE s \in {"h_connect", "r_connect", "f_connect", "fp_connect", "pp_connect"}
            -> {"OSError", "OSConnRefused", "TimeoutError", "SSLCertError"}
    [] s \in {"f_data_connect", "fp_data_connect", "pp_data_connect"}     \* the address comes from the server's PASV reply: a port number
                                                     \* above 65535 makes socket.connect raise OverflowError
            -> {"OSError", "OSConnRefused", "TimeoutError", "SSLCertError"} \cup (IF Fixed("pasv_range") THEN {} ELSE {"OverflowError"})
    [] s \in {"h_hdr_readline", "r_hdr_readline", "h_chunk_hdr_readline", "h_chunk_nl_readline",
              "h_trailer_readline", "r_chunk_nl_readline", "f_reply_readline", "f_end_readline", "fp_reply_readline",
              "pp_reply_readline"}
            -> {"ValueError", "OSError", "NetworkError", "NetworkTimedOut"}     \* StreamReader.readline: limit overrun
    [] s \in {"h_body_read", "r_body_read", "h_chunk_body_read", "f_data_read", "fp_data_read", "pp_data_read"}
            -> {"OSError", "NetworkError", "NetworkTimedOut"}
    [] s \in {"h_status_parse", "r_status_parse"} -> {"ProtocolError"}
    [] s \in {"h_content_length_parse", "h_chunk_size_parse", "f_size_parse", "f_pasv_parse", "fp_pasv_parse", "pp_pasv_parse"}
            -> {"ValueError"}
    [] s \in {"h_decompress", "h_flush", "r_decompress", "r_flush"} -> {"ZlibError"}
    [] s \in {"h_redirect_next", "r_redirect_next"} -> {"ValueError", "ProtocolError"}
    [] s \in {"h_trailer_parse", "r_trailer_parse"} ->           \* stream.py:364 fields.parse(trailer): strict, "Field missing colon."
            IF Fixed("trailer_lenient") THEN {} ELSE {"ValueError"}
    [] s = "h_request_filename" ->                              \* path.py:263 (--restrict-file-names windows): name ending in "."
            IF Fixed("win_names") THEN {} ELSE {"ValueError"}
    [] s = "r_status_5xx" -> {"ServerError"}
    [] s = "h_save_document" ->                                 \* writer.py:141 time.mktime(None): Last-Modified garbage
            IF Fixed("last_modified") THEN {} ELSE {"TypeError"}
    [] s = "h_writer_process_response" -> (IF Fixed("writer_names") THEN {"ProtocolError"} ELSE {"RecursionError", "OSError"})
                                          \cup (IF Fixed("win_names") THEN {} ELSE {"ValueError"})
                                        \* writer.py:121 os.makedirs / open on a server-chosen path; path.py:263 Content-Disposition
    [] s = "h_scrape_encoding" ->                               \* string.py:104 bytes.decode('hex'): charset label
            IF Fixed("charset_codec") THEN {} ELSE {"LookupError"}
    [] s = "h_scrape_html" -> {"ValueError", "UnicodeError"}
    [] s = "h_scrape_text" -> {"UnicodeError"}
    [] s = "h_scrape_sitemap" -> {"ValueError", "UnicodeError", "EOFError", "BadGzipFile", "ZlibError"}   \* document/sitemap.py:66 gzip
    [] s \in {"h_urljoin", "h_child_url_parse"} -> {"ValueError"}
    [] s \in {"f_reply_parse", "fp_reply_parse", "pp_reply_parse"} ->             \* ftp/request.py:84 assert
            {"ProtocolError"} \cup (IF Fixed("ftp_two_finals") THEN {} ELSE {"AssertionError"})
    [] s \in {"f_reply_code", "f_end_code", "f_mlsd_code", "fp_end_code", "fp_reply_code", "pp_end_code", "pp_reply_code"}
            -> {"FTPServerError"}
    [] s \in {"f_login_code", "fp_login_code", "f_size_code"} -> {"FTPServerError"}
    [] s = "f_symlink" -> {"OSError", "ValueError"}              \* os.symlink: name exists / no such directory / NUL in the name
    [] s = "h_writer_continue" ->                                \* 416 (or another error status) to the Range request
            IF Fixed("continue_refused") THEN {"ProtocolError"} ELSE {"OSError"}
    [] s = "f_writer_continue" ->                                \* REST refused (repaired tree: the file is written anew)
            IF Fixed("continue_refused") THEN {} ELSE {"OSError"}
    [] s \in {"f_listing_parse", "fp_listing_parse", "pp_listing_parse"} ->         \* ls/listing.py:88 fields[1]
            {"ListingError", "ValueError"} \cup (IF Fixed("msdos_short") THEN {} ELSE {"IndexError"})
    [] OTHER -> {}

Provokable == {<<s, k>> \in Sites \X Kinds : k \in ProvokableAt(s)}

OkOutcome(o) == o \in {"absorbed", "per_url_error"}

\* the certificate policy: with --check-certificate a certificate failure stops the crawl ON PURPOSE (rule.py:357,
\* app.py:187 "To ignore and proceed insecurely, use --no-check-certificate"): not counted against C09 (lenient reading)
CatchFrames == {"FetchOne", "FetchOneNoBody", "ProcessRobots", "FtpFetch", "FtpParentCatch"}
PolicyStop(s, k) == SSLVerify /\ \E f \in CatchFrames : Is(KindAt(s, k, 1, f), "SSLVerificationError")

\* The predicted escapes among the provokable pairs = the suspects the binding must confirm on the real code.
Suspects == {p \in Provokable : ~OkOutcome(Predict(p[1], p[2]).out) /\ ~PolicyStop(p[1], p[2])}

\* The documented suspect list (DESIGN section 6 + what this model added).  The design check verifies
\* Suspects = KnownSuspects, so that a change of the model (or of the transcription) cannot silently add or
\* drop a predicted escape.
Unless(fix, S) == IF Fixed(fix) THEN {} ELSE S

ParentListing ==   \* finding 21: everything that leaves the parent-directory listing
     {<<s, k>> : s \in {"fp_connect", "fp_data_connect"}, k \in {"OSError", "OSConnRefused", "TimeoutError", "SSLCertError"}}
\cup {<<"fp_reply_readline", k>> : k \in {"OSError", "NetworkError", "NetworkTimedOut"}}
\cup {<<"fp_data_read", k>> : k \in {"OSError", "NetworkError", "NetworkTimedOut"}}
\cup {<<"fp_reply_parse", "ProtocolError">>, <<"fp_pasv_parse", "ValueError">>,
      <<"fp_login_code", "FTPServerError">>, <<"fp_end_code", "FTPServerError">>}
\cup {<<"fp_listing_parse", k>> : k \in {"ListingError", "ValueError"}}

PermSites == {"pp_connect", "pp_reply_readline", "pp_reply_parse", "pp_reply_code", "pp_pasv_parse", "pp_data_connect",
              "pp_data_read", "pp_end_code", "pp_listing_parse"}
\* everything remote input can provoke in the listing made for --preserve-permissions leaves it, except a refusing
\* reply to the listing command itself (FtpParentStart)
PermListing == {p \in Provokable : p[1] \in PermSites} \ {<<"pp_reply_code", "FTPServerError">>}

KnownSuspects ==
     Unless("chunk_readline", {<<"h_chunk_nl_readline", "ValueError">>, <<"h_trailer_readline", "ValueError">>,
                               <<"r_chunk_nl_readline", "ValueError">>})       \* oversize line after a chunk / in the trailer
\cup Unless("trailer_lenient", {<<"h_trailer_parse", "ValueError">>, <<"r_trailer_parse", "ValueError">>})   \* trailer line without a colon
\cup Unless("ftp_reply_readline", {<<"f_reply_readline", "ValueError">>, <<"f_end_readline", "ValueError">>,
                                   <<"fp_reply_readline", "ValueError">>})     \* oversize FTP reply line
\cup Unless("ftp_two_finals", {<<"f_reply_parse", "AssertionError">>, <<"fp_reply_parse", "AssertionError">>})  \* two final lines in one read
\cup Unless("msdos_short", {<<"f_listing_parse", "IndexError">>, <<"fp_listing_parse", "IndexError">>})        \* MS-DOS line with < 4 fields
\cup Unless("last_modified", {<<"h_save_document", "TypeError">>})                                            \* Last-Modified: garbage
\cup Unless("win_names", {<<"h_request_filename", "ValueError">>, <<"h_writer_process_response", "ValueError">>})   \* finding 22
\cup Unless("writer_names", {<<"h_writer_process_response", "RecursionError">>, <<"h_writer_process_response", "OSError">>})   \* makedirs / open on a server-chosen path
\cup Unless("charset_codec", {<<"h_scrape_encoding", "LookupError">>})                                        \* charset=hex
\cup Unless("sitemap_gzip", {<<"h_scrape_sitemap", k>> : k \in {"EOFError", "BadGzipFile", "ZlibError"}})      \* corrupt gzip sitemap
\cup Unless("pasv_range", {<<"f_data_connect", "OverflowError">>, <<"fp_data_connect", "OverflowError">>})   \* PASV port > 65535
\cup Unless("ftp_parent", ParentListing)
\cup (IF Fixed("perm_listing")
      THEN Unless("ftp_reply_readline", {<<"pp_reply_readline", "ValueError">>})
           \cup Unless("ftp_two_finals", {<<"pp_reply_parse", "AssertionError">>})
           \cup Unless("msdos_short", {<<"pp_listing_parse", "IndexError">>})
           \cup Unless("pasv_range", {<<"pp_data_connect", "OverflowError">>})
      ELSE PermListing)
\cup Unless("symlink_create", {<<"f_symlink", "OSError">>, <<"f_symlink", "ValueError">>})
\cup Unless("continue_refused", {<<"h_writer_continue", "OSError">>, <<"f_writer_continue", "OSError">>})

-----------------------------------------------------------------------------
(* ---- step semantics: one action per layer ---- *)
VARIABLES site, kind0, kind, idx, outcome, seen

vars == <<site, kind0, kind, idx, outcome, seen>>

Init ==
  /\ site \in Sites /\ kind0 \in Kinds /\ kind = kind0 /\ idx = 1
  /\ outcome = "flying"
  /\ seen = [p \in ObsFrames |-> "none"]

Frame == Route(site)[idx]

Advance ==
  LET a == Apply(Frame, kind) IN
    /\ seen' = IF Frame \in ObsFrames THEN [seen EXCEPT ![Frame] = kind] ELSE seen
    /\ CASE a.t = "raise"   -> kind' = a.k /\ idx' = idx + 1 /\ UNCHANGED outcome
         [] a.t = "absorb"  -> outcome' = "absorbed" /\ kind' = "none" /\ UNCHANGED idx
         [] a.t = "handled" -> outcome' = "per_url_error" /\ kind' = "none" /\ UNCHANGED idx
         [] a.t = "break"   -> outcome' = "pipeline_break" /\ UNCHANGED <<kind, idx>>
         [] a.t = "crash"   -> outcome' = "crash" /\ UNCHANGED <<kind, idx>>
    /\ UNCHANGED <<site, kind0>>

At(layer) == outcome = "flying" /\ idx <= Len(Route(site)) /\ Layer(Frame) = layer

Primitive == At("primitive") /\ Advance     \* Connection.run_network_operation
Stream    == At("stream") /\ Advance        \* http Stream / ChunkedTransferReader / decompressor / ftp streams
Session   == At("session") /\ Advance       \* http / ftp client Session, Commander
Web       == At("web") /\ Advance           \* WebSession, RobotsTxtChecker
Scraper   == At("scraper") /\ Advance       \* DemuxDocumentScraper and what follows it in ProcessingRule
Processor == At("processor") /\ Advance     \* WebProcessorSession / FTPProcessorSession
Task      == At("task") /\ Advance          \* ProcessTask.process
WorkerL   == At("worker") /\ Advance        \* Worker.process_one
Pipeline  == At("pipeline") /\ Advance      \* Pipeline._process_one_worker: task.result()
App       == At("app") /\ Advance           \* Application.run

Next == Primitive \/ Stream \/ Session \/ Web \/ Scraper \/ Processor \/ Task \/ WorkerL \/ Pipeline \/ App

Spec == Init /\ [][Next]_vars /\ WF_vars(Next)

-----------------------------------------------------------------------------
(* ---- properties of the model ---- *)
TypeOK ==
  /\ site \in Sites /\ kind0 \in Kinds /\ kind \in Kinds \cup {"none"}
  /\ outcome \in {"flying", "absorbed", "per_url_error", "pipeline_break", "crash"}
  /\ idx \in 1..(Len(Route(site)) + 1)

Done == outcome # "flying"

\* every route ends in Application.run: nothing falls off the end
NoFallOff == (outcome = "flying") => idx <= Len(Route(site))

\* the recursive prediction (what the monitor uses) agrees with the step semantics
PredictAgrees ==
  Done => /\ Predict(site, kind0).out = outcome
          /\ \A p \in ObsFrames : seen[p] # "none" => seen[p] = PredictAt(site, kind0, p)

\* whatever the processors catch is a per-URL error: a REMOTE kind arriving at a processor frame never goes further
\* (except the certificate policy)
RemoteHandledAtProcessor ==
  (outcome \in {"pipeline_break", "crash"} /\ IsAny(kind, REMOTE) /\ ~(SSLVerify /\ Is(kind, "SSLVerificationError")))
     => ~(\E i \in 1..Len(Route(site)) : Route(site)[i] \in {"FetchOne", "ProcessRobots", "FtpFetch", "FtpParentCatch"})

\* C09 on the model, modulo the documented suspects
C09Model == (Done /\ <<site, kind0>> \in Provokable /\ ~OkOutcome(outcome) /\ ~PolicyStop(site, kind0))
               => <<site, kind0>> \in KnownSuspects

ASSUME SuspectsAsDocumented == Suspects = KnownSuspects

Finishes == <>Done
=============================================================================
