---------------------------- MODULE ErrorFlowMon ----------------------------
(***************************************************************************)
(* Observation monitor for C09.  One trace = one case run against the real *)
(* wpull code:                                                              *)
(*   header  mode    "fault"  an exception of `kind` was injected at `site`  *)
(*                   "wire"   a hostile server sent a malformed response     *)
(*                   "doc"    a mutated document went through the scrapers   *)
(*           site, kind      the model's (site, kind) the case exercises     *)
(*                           ("none","none": the model expects tolerance)    *)
(*           natural 1 = the error was provoked by real remote bytes         *)
(*           e2e     1 = a complete crawl; 0 = only the observation point    *)
(*   events  leave(p, k)     exception of kind k left observation point p    *)
(*                           while the hostile URL was being processed       *)
(*           end(hang, pipe, target, others, final)                          *)
(*                pipe   kind that left Pipeline.process (reached            *)
(*                       Application.run), "none" otherwise                  *)
(*                target final status of the hostile URL's row               *)
(*                others 1 = every other URL of the site has status done     *)
(*                final  1 = no row is left todo / in_progress               *)
(* The property clauses are evaluated on what was OBSERVED; the model        *)
(* (ErrorFlow.tla: Predict, PredictAt, Provokable, the frames) is used for   *)
(* (i) deciding whether an injected kind is one remote data can provoke,     *)
(* (ii) following an exception that left a unit-level observation point up   *)
(* to Application.run, (iii) MODEL-DRIFT: observed /= predicted.             *)
(***************************************************************************)
EXTENDS ErrorFlow, Json, IOUtils, TLCExt

Batch == JsonDeserialize(IOEnv.TRACE_FILE)
NT    == Len(Batch)

VARIABLES tid, l, leaves, ended, hang, pipe, target, others, final
mvars == <<vars, tid, l, leaves, ended, hang, pipe, target, others, final>>

Hdr == Batch[tid]
Ev  == Batch[tid].ev
Cur == Ev[l]

MInit ==
  /\ tid \in 1..NT /\ l = 1
  /\ leaves = {} /\ ended = FALSE /\ hang = FALSE /\ pipe = "none" /\ target = "none" /\ others = TRUE /\ final = TRUE
  \* the step variables of ErrorFlow.tla are not used by the monitor (it uses Predict / PredictAt / Flow): pinned
  /\ site = "h_connect" /\ kind0 = "Exception" /\ kind = "Exception" /\ idx = 1 /\ outcome = "flying"
  /\ seen = [p \in ObsFrames |-> "none"]

MNext ==
  /\ l <= Len(Ev) /\ l' = l + 1 /\ UNCHANGED <<tid, vars>>
  /\ LET e == Cur IN
     /\ leaves' = IF e.e = "leave" THEN leaves \cup {<<e.p, e.k>>} ELSE leaves
     /\ ended'  = (ended \/ e.e = "end")
     /\ hang'   = IF e.e = "end" THEN e.hang = 1 ELSE hang
     /\ pipe'   = IF e.e = "end" THEN e.pipe ELSE pipe
     /\ target' = IF e.e = "end" THEN e.target ELSE target
     /\ others' = IF e.e = "end" THEN e.others = 1 ELSE others
     /\ final'  = IF e.e = "end" THEN e.final = 1 ELSE final

MSpec == MInit /\ [][MNext]_mvars

-----------------------------------------------------------------------------
Known(k)   == k \in Kinds
Modelled   == Hdr.site \in Sites /\ Hdr.kind \in Kinds
\* judged: the error was provoked by real remote bytes, or it is an injected kind that remote input can provoke at
\* that site; the certificate policy (a deliberate stop, lenient reading) is not judged
Judged     == /\ Hdr.natural = 1 \/ (Modelled /\ <<Hdr.site, Hdr.kind>> \in Provokable)
              /\ ~(Modelled /\ PolicyStop(Hdr.site, Hdr.kind))
E2E        == Hdr.e2e = 1

\* ---- property clauses (observed behaviour only)
NoHangObs     == ended => ~hang
\* (unit-level runs: pipe = what left ProcessingRule.scrape_document, which web.py calls outside its try)
NoEscapeObs   == (ended /\ Judged) => pipe = "none"
\* the stated oracle: nothing outside REMOTE_ERRORS leaves an observation point
ObsCleanObs   == Judged => \A lv \in leaves : Known(lv[2]) /\ IsAny(lv[2], REMOTE)
OthersObs     == (ended /\ E2E /\ Judged) => others
AllFinalObs   == (ended /\ E2E /\ Judged) => final
TargetObs     == (ended /\ E2E /\ Judged /\ ~hang) => target \in {"done", "error", "skipped"}

\* unit-level runs: what left the observation point is followed through the model's frames above that point
IndexOf(seq, x) == IF \E i \in 1..Len(seq) : seq[i] = x THEN CHOOSE i \in 1..Len(seq) : seq[i] = x ELSE 0
Continues(lv) ==
  LET i == IndexOf(Route(Hdr.site), lv[1]) IN
  IF i = 0 \/ ~Known(lv[2]) THEN FALSE ELSE OkOutcome(Flow(Hdr.site, lv[2], i + 1).out)
UnitObs == (~E2E /\ Judged /\ Hdr.site \in Sites) => \A lv \in leaves : Continues(lv)

\* ---- drift: observed vs predicted (never an alarm)
ObsOutcome ==
  IF hang THEN "hang"
  ELSE IF pipe # "none" THEN (IF Known(pipe) /\ IsAny(pipe, EXPECTED) THEN "pipeline_break" ELSE "crash")
  ELSE IF target \in {"error", "skipped"} THEN "per_url_error"
  ELSE IF target = "done" THEN "ok" ELSE "unfinished"

Expected == IF Modelled THEN Predict(Hdr.site, Hdr.kind).out ELSE "absorbed"
OutcomeAgrees ==
  (ended /\ E2E) => \/ Expected = "absorbed" /\ ObsOutcome = "ok"
                    \/ Expected = "absorbed" /\ Hdr.skipok = 1 /\ target = "skipped" /\ pipe = "none" /\ ~hang
                    \/ Expected = ObsOutcome
LeavesAgree ==
  (ended /\ Modelled) =>
     /\ \A lv \in leaves : lv[1] \in ObsFrames => PredictAt(Hdr.site, Hdr.kind, lv[1]) = lv[2]
     /\ \A p \in ObsFrames : PredictAt(Hdr.site, Hdr.kind, p) # "none" => <<p, PredictAt(Hdr.site, Hdr.kind, p)>> \in leaves
LeavesNone == (ended /\ ~Modelled) => leaves = {}

-----------------------------------------------------------------------------
ASSUME \A i \in 1..(2 * NT) : TLCSet(i, 0)

BadClause ==
  IF ~NoHangObs THEN 1 ELSE IF ~NoEscapeObs THEN 2 ELSE IF ~ObsCleanObs THEN 3 ELSE IF ~OthersObs THEN 4
  ELSE IF ~AllFinalObs THEN 5 ELSE IF ~TargetObs THEN 6 ELSE IF ~UnitObs THEN 7 ELSE 0

DriftCode == IF ~OutcomeAgrees THEN 1 ELSE IF ~LeavesAgree THEN 2 ELSE IF ~LeavesNone THEN 3 ELSE 0

\* register NT+tid: first violated clause * 100000 + drift code * 1000 (drift is recorded at the end of the trace)
Record ==
  /\ IF TLCGet(tid) < l THEN TLCSet(tid, l) ELSE TRUE
  /\ IF BadClause # 0 /\ TLCGet(NT + tid) \div 100000 = 0
     THEN TLCSet(NT + tid, BadClause * 100000 + (IF l < 1000 THEN l ELSE 999)) ELSE TRUE
  /\ IF ended /\ BadClause = 0 /\ TLCGet(NT + tid) = 0 /\ DriftCode # 0
     THEN TLCSet(NT + tid, DriftCode * 1000 + (IF l < 1000 THEN l ELSE 999)) ELSE TRUE

Post == PrintT(<<"VERDICTS_BEGIN",
                 [i \in 1..NT |-> <<TLCGet(i) - 1, TLCGet(NT + i) \div 100000, TLCGet(NT + i) % 100000>>],
                 "VERDICTS_END">>)
=============================================================================
