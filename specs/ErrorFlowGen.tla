---------------------------- MODULE ErrorFlowGen ----------------------------
(***************************************************************************)
(* Case generation for C09 (spec -> code).                                  *)
(*                                                                         *)
(* (b) grammar-level malformations: a table  class -> (site, kind) the      *)
(*     class exercises in ErrorFlow.tla ("none": the model expects the      *)
(*     code to tolerate it), crossed with the segmentation of the bytes,    *)
(*     plus a premature close at EVERY byte position of reference           *)
(*     responses whose layout (parts and their lengths) is supplied by the  *)
(*     driver; the part the cut falls into decides the expected site.       *)
(* (c) token-level document mutations: every sequence of at most DocLen     *)
(*     tokens over a per-format alphabet of hostile tokens, crossed with    *)
(*     charset labels for the short ones.                                   *)
(* (a) the fault enumeration: Sites \X Kinds of ErrorFlow.tla restricted to *)
(*     the sites the driver can arm (Injectable).                           *)
(*                                                                         *)
(* TLC enumerates the cases (one initial state each) and prints them as     *)
(* JSON; drivers/errorflow_gen.py turns a class / token name into bytes.    *)
(* Every (site, kind) named here is checked to exist in ErrorFlow.tla.      *)
(***************************************************************************)
EXTENDS ErrorFlow, Json

CONSTANTS Layouts,    \* reference name -> sequence of [part |-> name, len |-> bytes]   (driver supplied)
          DocLen,     \* longest token sequence of a generated document
          Which       \* "wire" | "cut" | "doc" | "fault"

None == <<"none", "none">>
Fx(fix, asFound, repaired) == IF Fixed(fix) THEN repaired ELSE asFound    \* what the class exercises depends on the tree

-----------------------------------------------------------------------------
(* ---- (b) HTTP, the hostile URL is a page ---- *)
WirePage == {
  \* status line
  <<"st_bad_version", "h_status_parse", "ProtocolError">>, <<"st_no_code", "h_status_parse", "ProtocolError">>,
  <<"st_code_alpha", "h_status_parse", "ProtocolError">>, <<"st_code_negative", "h_status_parse", "ProtocolError">>,
  <<"st_space_prefix", "h_status_parse", "ProtocolError">>, <<"st_empty_line", "h_status_parse", "ProtocolError">>,
  <<"st_code_4digit", "none", "none">>, <<"st_nul_reason", "none", "none">>, <<"st_lf_only", "none", "none">>,
  <<"st_version_big", "none", "none">>, <<"st_no_reason", "none", "none">>,
  <<"st_huge_reason", "h_hdr_readline", "ValueError">>,
  <<"st_http09", "h_hdr_readline", "NetworkError">>, <<"st_only_cr", "h_hdr_readline", "NetworkError">>,
  <<"st_binary_line", "h_status_parse", "ProtocolError">>, <<"st_binary_no_newline", "h_hdr_readline", "NetworkError">>,
  \* header block
  <<"hd_no_end", "h_hdr_readline", "NetworkError">>, <<"hd_oversize_line", "h_hdr_readline", "ValueError">>,
  <<"hd_oversize_line_nonl", "h_hdr_readline", "ValueError">>, <<"hd_oversize_total", "h_status_parse", "ProtocolError">>,
  <<"hd_no_colon", "none", "none">>, <<"hd_nul", "none", "none">>, <<"hd_high_bytes", "none", "none">>,
  <<"hd_fold_first", "none", "none">>, <<"hd_dup_content_length", "none", "none">>, <<"hd_empty_name", "none", "none">>,
  <<"hd_many", "none", "none">>, <<"hd_bare_cr", "none", "none">>, <<"hd_utf8_bom", "h_status_parse", "ProtocolError">>, <<"ck_flood_new_path", "none", "none">>, <<"ck_flood_same_path", "none", "none">>, <<"ck_odd", "none", "none">>,
  \* Content-Length
  <<"cl_negative", "h_content_length_parse", "ValueError">>, <<"cl_alpha", "h_content_length_parse", "ValueError">>,
  <<"cl_empty", "h_content_length_parse", "ValueError">>, <<"cl_float", "h_content_length_parse", "ValueError">>,
  <<"cl_hex", "h_content_length_parse", "ValueError">>, <<"cl_huge_digits", "h_content_length_parse", "ValueError">>,
  <<"cl_plus", "none", "none">>, <<"cl_spaces", "none", "none">>, <<"cl_overrun", "none", "none">>,
  <<"cl_short_body", "h_body_read", "NetworkError">>,
  \* chunked framing
  <<"ch_size_nonhex", "h_chunk_size_parse", "ValueError">>, <<"ch_size_negative", "h_chunk_size_parse", "ValueError">>,
  <<"ch_size_empty", "h_chunk_size_parse", "ValueError">>, <<"ch_size_huge", "h_chunk_hdr_readline", "NetworkError">>,
  <<"ch_size_ext_garbage", "none", "none">>, <<"ch_overrun", "h_chunk_nl_readline", "ProtocolError">>,
  <<"ch_no_final", "h_chunk_hdr_readline", "NetworkError">>, <<"ch_size_line_oversize", "h_chunk_hdr_readline", "ValueError">>,
  <<"ch_nl_oversize", "h_chunk_nl_readline", "ValueError">>, <<"ch_trailer_oversize", "h_trailer_readline", "ValueError">>,
  Fx("trailer_lenient", <<"ch_trailer_no_colon", "h_trailer_parse", "ValueError">>, <<"ch_trailer_no_colon", "none", "none">>), <<"ch_trailer_nul", "none", "none">>,
  <<"ch_te_capital", "none", "none">>, <<"ch_zero_only", "none", "none">>,
  <<"ch_te_empty", "none", "none">>, <<"ch_te_commas", "none", "none">>, <<"ch_te_trailing_comma", "none", "none">>,
  \* content codings
  <<"gz_corrupt_header", "h_decompress", "ZlibError">>, <<"gz_corrupt_body", "h_decompress", "ZlibError">>,
  <<"gz_truncated", "h_flush", "ZlibError">>, <<"gz_trailing_garbage", "none", "none">>, <<"gz_empty", "none", "none">>,
  <<"gz_not_gzip", "none", "none">>, <<"gz_bomb_small", "none", "none">>, <<"gz_chunked_corrupt", "h_decompress", "ZlibError">>,
  <<"df_corrupt", "h_decompress", "ZlibError">>, <<"df_truncated", "h_flush", "ZlibError">>, <<"df_raw", "none", "none">>,
  <<"enc_unknown", "none", "none">>,
  \* whole response
  <<"ms_empty_response", "h_hdr_readline", "NetworkError">>, <<"ms_only_crlf", "h_status_parse", "ProtocolError">>,
  <<"ms_nul_body", "none", "none">>, <<"ms_204_with_body", "none", "none">>, <<"ms_garbage_after_headers", "none", "none">>,
  <<"ms_reset_in_header", "h_hdr_readline", "OSError">>, <<"ms_reset_in_body", "h_body_read", "OSError">>,
  <<"ms_stall_in_header", "h_hdr_readline", "NetworkTimedOut">>, <<"ms_stall_in_body", "h_body_read", "NetworkTimedOut">>,
  \* redirects, cookies, other header-borne data
  <<"rd_ipv6", "h_redirect_next", "ValueError">>, <<"rd_empty", "h_redirect_next", "ProtocolError">>,
  <<"rd_nul", "h_redirect_next", "ValueError">>, <<"rd_port_big", "h_redirect_next", "ValueError">>,
  <<"rd_port_alpha", "h_redirect_next", "ValueError">>, <<"rd_idna_long", "h_redirect_next", "ValueError">>,
  <<"rd_loop", "h_redirect_load", "ProtocolError">>, <<"rd_unresolvable", "h_connect", "DNSNotFound">>,
  <<"rd_302_post", "none", "none">>, <<"rd_307_post", "none", "none">>, <<"rd_308_post", "none", "none">>,
  <<"rd_mailto", "none", "none">>, <<"rd_data_url", "none", "none">>,
  <<"px_idle_close", "none", "none">>, <<"ok_save_headers", "none", "none">>, <<"ok_output_document", "none", "none">>,
  <<"ok_adjust_extension", "none", "none">>, <<"ok_no_directories", "none", "none">>, <<"ok_timestamping", "none", "none">>,
  <<"ok_no_clobber", "none", "none">>, <<"ok_convert_links", "none", "none">>, <<"ok_page_requisites_convert", "none", "none">>, <<"ok_object_codebase_attrname", "none", "none">>,
  <<"au_401_post", "none", "none">>, <<"rd_new_directory", "none", "none">>, <<"ok_new_directory", "none", "none">>,
  <<"ck_garbage", "none", "none">>, <<"ck_huge", "none", "none">>, <<"ck_port_garbage", "none", "none">>,
  <<"ct_garbage", "none", "none">>, <<"cs_unknown", "none", "none">>, <<"cs_nul", "none", "none">>,
  Fx("charset_codec", <<"cs_nontext_codec", "h_scrape_encoding", "LookupError">>, <<"cs_nontext_codec", "none", "none">>), Fx("charset_codec", <<"cs_meta_nontext_codec", "h_scrape_encoding", "LookupError">>, <<"cs_meta_nontext_codec", "none", "none">>),
  Fx("charset_codec", <<"cs_css_nontext_codec", "h_scrape_encoding", "LookupError">>, <<"cs_css_nontext_codec", "none", "none">>),
  Fx("last_modified", <<"lm_garbage", "h_save_document", "TypeError">>, <<"lm_garbage", "none", "none">>), Fx("last_modified", <<"lm_out_of_range", "h_save_document", "TypeError">>, <<"lm_out_of_range", "none", "none">>),
  <<"lm_year_overflow", "none", "none">>, <<"lm_year_0", "none", "none">>, <<"lm_before_epoch", "none", "none">>, <<"lm_year_9999", "none", "none">>,
  <<"lm_empty", "none", "none">>, <<"lm_year_big", "none", "none">>,
  <<"rf_refresh_ipv6", "none", "none">>,
  \* server-chosen names reaching the file writer
  Fx("writer_names", <<"fn_deep_dirs", "h_writer_process_response", "RecursionError">>, <<"fn_deep_dirs", "h_writer_process_response", "ProtocolError">>),
  Fx("writer_names", <<"fn_long_total", "h_writer_process_response", "OSError">>, <<"fn_long_total", "h_writer_process_response", "ProtocolError">>),
  <<"fn_long_component", "none", "none">>, Fx("win_names", <<"fn_win_trailing_dot", "h_request_filename", "ValueError">>, <<"fn_win_trailing_dot", "none", "none">>),
  Fx("win_names", <<"cd_win_trailing_dot", "h_writer_process_response", "ValueError">>, <<"cd_win_trailing_dot", "none", "none">>), <<"cd_garbage", "none", "none">>,
  Fx("writer_names", <<"cd_names_directory", "h_writer_process_response", "OSError">>, <<"cd_names_directory", "h_writer_process_response", "ProtocolError">>),
  Fx("writer_names", <<"cd_nul_nocontrol", "h_writer_process_response", "ValueError">>, <<"cd_nul_nocontrol", "h_writer_process_response", "ProtocolError">>),
  Fx("writer_names", <<"fn_adjust_extension_directory", "h_writer_process_response", "OSError">>, <<"fn_adjust_extension_directory", "h_writer_process_response", "ProtocolError">>),
  \* sitemaps (--sitemaps)
  <<"sm_gzip_garbage", "h_scrape_sitemap", "BadGzipFile">>, <<"sm_gzip_truncated", "h_scrape_sitemap", "EOFError">>,
  <<"sm_gzip_ok", "none", "none">> }

(* ---- (b) HTTP, the hostile URL is the robots.txt of the target's host ---- *)
WireRobots == {
  <<"rb_binary", "none", "none">>, <<"rb_huge", "none", "none">>, <<"rb_utf16", "none", "none">>,
  <<"rb_directives_garbage", "none", "none">>, <<"rb_nul", "none", "none">>,
  <<"rb_status_999", "none", "none">>, <<"rb_status_600", "none", "none">>, <<"rb_status_000", "none", "none">>,
  <<"rb_status_299", "none", "none">>,
  <<"rb_garbage_response", "r_status_parse", "ProtocolError">>, <<"rb_500", "r_status_5xx", "ServerError">>,
  <<"rb_redirect_bad", "r_redirect_next", "ValueError">>, <<"rb_close_immediately", "r_hdr_readline", "NetworkError">>,
  <<"rb_gzip_bad", "r_decompress", "ZlibError">>, <<"rb_oversize_line", "r_hdr_readline", "ValueError">>,
  <<"rb_chunk_nl_oversize", "r_chunk_nl_readline", "ValueError">>, Fx("trailer_lenient", <<"rb_trailer_no_colon", "r_trailer_parse", "ValueError">>, <<"rb_trailer_no_colon", "none", "none">>),
  <<"rb_redirect_mailto", "none", "none">>, <<"rb_redirect_data", "none", "none">>, <<"rb_redirect_ftp", "none", "none">>,
  <<"rb_star_run", "none", "none">>,
  <<"rb_cl_short", "r_body_read", "NetworkError">>, <<"rb_reset_in_body", "r_body_read", "OSError">> }

(* ---- (b) FTP: the hostile URL is a file of a listed directory ---- *)
WireFtp == {
  <<"ft_begin_bad_code", "f_reply_code", "FTPServerError">>, <<"ft_begin_nocode_stall", "f_reply_readline", "NetworkTimedOut">>,
  <<"ft_begin_close", "f_reply_readline", "NetworkError">>, <<"ft_begin_oversize", "f_reply_readline", "ValueError">>,
  Fx("ftp_two_finals", <<"ft_begin_two_finals", "f_reply_parse", "AssertionError">>, <<"ft_begin_two_finals", "f_reply_parse", "ProtocolError">>), <<"ft_begin_high_bytes", "none", "none">>,
  <<"ft_begin_multiline", "none", "none">>, <<"ft_begin_reset", "f_reply_readline", "OSError">>,
  <<"ft_type_bad_code", "f_reply_code", "FTPServerError">>,
  <<"ft_pasv_garbage", "f_pasv_parse", "ValueError">>, Fx("pasv_range", <<"ft_pasv_big_numbers", "f_data_connect", "DNSNotFound">>, <<"ft_pasv_big_numbers", "f_pasv_parse", "ValueError">>),
  <<"ft_pasv_refused", "f_data_connect", "OSConnRefused">>,
  Fx("pasv_range", <<"ft_pasv_port_overflow", "f_data_connect", "OverflowError">>, <<"ft_pasv_port_overflow", "f_pasv_parse", "ValueError">>), <<"ft_pasv_wrong_code", "f_reply_code", "FTPServerError">>,
  <<"ft_size_garbage", "f_size_parse", "ValueError">>, <<"ft_size_huge", "f_size_parse", "ValueError">>,
  <<"ft_size_error", "f_size_code", "FTPServerError">>,
  <<"ft_data_close_no_final", "f_end_readline", "NetworkTimedOut">>, <<"ft_data_reset", "f_data_read", "OSError">>,
  <<"ft_end_bad_code", "f_end_code", "FTPServerError">>, <<"ft_end_close", "f_end_readline", "NetworkError">>,
  <<"ft_end_oversize", "f_end_readline", "ValueError">> }

(* the hostile URL is a directory: its listing *)
WireFtpListing == {
  <<"ls_binary", "none", "none">>, <<"ls_empty", "none", "none">>, <<"ls_names_weird", "none", "none">>,
  <<"ls_symlink_escape", "none", "none">>, <<"ls_huge_line", "none", "none">>,
  Fx("msdos_short", <<"ls_msdos_short", "f_listing_parse", "IndexError">>, <<"ls_msdos_short", "f_listing_parse", "ListingError">>), Fx("msdos_short", <<"ls_msdos_3fields", "f_listing_parse", "IndexError">>, <<"ls_msdos_3fields", "f_listing_parse", "ListingError">>),
  <<"ls_unix_bad_date", "f_listing_parse", "ValueError">>, <<"ls_unix_no_size", "f_listing_parse", "ValueError">>,
  <<"ls_unix_no_date", "f_listing_parse", "ListingError">>, <<"ls_msdos_bad_date", "f_listing_parse", "ValueError">>,
  \* machine listings (MLSD): parse_machine_listing(strict=False) keeps a row whose facts cannot be converted
  <<"ml_ok", "none", "none">>, <<"ml_fraction_short", "none", "none">>, <<"ml_fraction_7", "none", "none">>,
  <<"ml_fraction_long", "none", "none">>, <<"ml_fraction_huge", "none", "none">>, <<"ml_bad_date", "none", "none">>,
  <<"ml_date_nondigit", "none", "none">>, <<"ml_size_garbage", "none", "none">>, <<"ml_size_huge", "none", "none">>,
  <<"ml_no_name", "none", "none">>, <<"ml_binary", "none", "none">>, <<"ml_names_weird", "none", "none">>,
  <<"ml_dup_facts", "none", "none">>, <<"ml_empty", "none", "none">> }

(* the hostile URL is a start URL whose parent directory is listed first (finding 21) *)
WireFtpParent == {
  <<"fp_data_refused", "fp_data_connect", "OSConnRefused">>, <<"fp_list_close", "fp_reply_readline", "NetworkError">>,
  <<"fp_list_550", "fp_reply_code", "FTPServerError">>, Fx("msdos_short", <<"fp_listing_msdos_short", "fp_listing_parse", "IndexError">>, <<"fp_listing_msdos_short", "fp_listing_parse", "ListingError">>),
  <<"fp_listing_bad_date", "fp_listing_parse", "ValueError">>, <<"fp_pasv_garbage", "fp_pasv_parse", "ValueError">>,
  <<"fp_end_bad_code", "fp_end_code", "FTPServerError">>, <<"fp_ok", "none", "none">>,
  Fx("pasv_range", <<"fp_pasv_port_overflow", "fp_data_connect", "OverflowError">>, <<"fp_pasv_port_overflow", "fp_pasv_parse", "ValueError">>) }

(* the hostile URL is a file found through a listing, fetched with --preserve-permissions: once it is saved its parent
   directory is listed for the mode bits, and THAT exchange goes wrong *)
WireFtpPerm == {
  <<"pm_ok", "none", "none">>,
  <<"pm_data_refused", "pp_data_connect", "OSConnRefused">>, <<"pm_list_close", "pp_reply_readline", "NetworkError">>,
  <<"pm_list_550", "pp_reply_code", "FTPServerError">>, <<"pm_listing_unknown", "pp_listing_parse", "ListingError">>,
  <<"pm_listing_bad_date", "pp_listing_parse", "ValueError">>, <<"pm_pasv_garbage", "pp_pasv_parse", "ValueError">>,
  <<"pm_end_bad_code", "pp_end_code", "FTPServerError">> }

(* --retr-symlinks=off: symbolic-link lines of a listing become local links, made with the names the server sent *)
WireFtpSymlink == {
  <<"sl_ok", "none", "none">>, <<"sl_no_target", "f_symlink", "OSError">>, <<"sl_twice", "f_symlink", "OSError">>,
  <<"sl_missing_dir", "f_symlink", "OSError">>, <<"sl_nul", "f_symlink", "ValueError">> }

(* --continue with a partial local file: the server does not resume *)
WireFtpContinue == {
  <<"fc_ok", "none", "none">>,
  \* REST refused: the whole file comes and the local copy is written anew
  Fx("continue_refused", <<"fc_rest_502", "f_writer_continue", "OSError">>, <<"fc_rest_502", "none", "none">>),
  Fx("continue_refused", <<"fc_rest_multiline_501", "f_writer_continue", "OSError">>, <<"fc_rest_multiline_501", "none", "none">>) }
WireHttpContinue == {
  <<"hc_206", "none", "none">>,
  \* Range ignored (200 with the whole document): the local copy is written anew, as Wget does
  Fx("continue_refused", <<"hc_200_range_ignored", "h_writer_continue", "OSError">>, <<"hc_200_range_ignored", "none", "none">>),
  Fx("continue_refused", <<"hc_416", "h_writer_continue", "OSError">>, <<"hc_416", "h_writer_continue", "ProtocolError">>) }

(* --warc-file: the WARC recorder listens to every step of the conversation; nothing it does may add an escape *)
WireFtpWarc == {
  <<"fw_ok", "none", "none">>, <<"fw_connect_refused", "f_connect", "OSConnRefused">>,
  <<"fw_connect_timeout", "f_connect", "TimeoutError">>, <<"fw_retr_550", "f_reply_code", "FTPServerError">>,
  <<"fw_data_reset", "f_data_read", "OSError">>, <<"fw_greeting_421", "f_reply_code", "FTPServerError">> }
WireFtpOptions == {
  <<"fo_mlsd_symlink", "none", "none">>, <<"fo_timestamping_second_run", "none", "none">>,
  <<"fo_new_directory_file_url", "none", "none">>, <<"fo_no_remove_listing", "none", "none">>, <<"fo_no_glob", "none", "none">>, <<"fo_save_headers", "none", "none">>}
WireHttpWarc == {
  <<"hw_ok", "none", "none">>, <<"hw_connect_refused", "h_connect", "OSConnRefused">>,
  <<"hw_reset_in_header", "h_hdr_readline", "OSError">>, <<"hw_garbage", "h_status_parse", "ProtocolError">> }

Segs == {"whole", "bytes1", "lines"}

\* raw deflate delivered one byte at a time: zlib accepts the first piece as a zlib header and fails on the second, and
\* the decoder does not fall back any more (decompression.py:84-93; DESIGN section 6 finding 12): a per-URL ProtocolError
SegExpect(r, g) == IF r[1] = "df_raw" /\ g = "bytes1" /\ ~Fixed("deflate_fallback") THEN <<r[1], "h_decompress", "ZlibError">> ELSE r

WireOf(tab, ctx, segs) == {[mode |-> "wire", ctx |-> ctx, cls |-> SegExpect(r, g)[1], site |-> SegExpect(r, g)[2],
                            kind |-> SegExpect(r, g)[3], seg |-> g] : r \in tab, g \in segs}
WireCases == WireOf(WirePage, "page", Segs) \cup WireOf(WireRobots, "robots", Segs)
             \cup WireOf(WireFtp, "ftp", {"whole", "bytes1"}) \cup WireOf(WireFtpListing, "ftplist", {"whole", "bytes1"})
             \cup WireOf(WireFtpParent, "ftpparent", {"whole"})
             \cup WireOf(WireFtpPerm, "ftpperm", {"whole"}) \cup WireOf(WireFtpSymlink, "ftpsym", {"whole"})
             \cup WireOf(WireFtpContinue, "ftpcont", {"whole"}) \cup WireOf(WireHttpContinue, "httpcont", {"whole"})
             \cup WireOf(WireFtpWarc, "ftpwarc", {"whole"}) \cup WireOf(WireHttpWarc, "httpwarc", {"whole"})
             \cup WireOf(WireFtpOptions, "ftpopt", {"whole"})

WireWellFormed == \A c \in WireCases : <<c.site, c.kind>> = None \/ (c.site \in Sites /\ c.kind \in Kinds)

-----------------------------------------------------------------------------
(* ---- (b) premature close at every byte position ---- *)
RECURSIVE SumLen(_, _)
SumLen(lay, n) == IF n = 0 THEN 0 ELSE lay[n].len + SumLen(lay, n - 1)
Total(ref) == SumLen(Layouts[ref], Len(Layouts[ref]))

\* the part that byte offset pos (0-based: the server sends exactly pos bytes, then closes) falls into
RECURSIVE PartAtFrom(_, _, _)
PartAtFrom(lay, pos, i) == IF i > Len(lay) THEN "end"
                           ELSE IF pos < lay[i].len THEN lay[i].part ELSE PartAtFrom(lay, pos - lay[i].len, i + 1)
PartAt(ref, pos) == PartAtFrom(Layouts[ref], pos, 1)

\* where a close inside that part surfaces (read off stream.py / chunked.py):
CutExpect(part) ==
  CASE part \in {"status", "header", "blank"} -> <<"h_hdr_readline", "NetworkError">>   \* stream.py:163
    [] part = "body_len"   -> <<"h_body_read", "NetworkError">>                         \* stream.py:306
    [] part = "body_close" -> None                                                      \* EOF is the end of the body
    [] part \in {"chunk_hdr", "chunk_data", "chunk_nl", "last_chunk"} -> <<"h_chunk_hdr_readline", "NetworkError">>
    \* chunked.py read_trailer: end of stream before the line that ends the message (was: taken for that line)
    [] part \in {"trailer", "trailer_name"} -> <<"h_trailer_readline", "NetworkError">>
    [] part \in {"r_status", "r_header", "r_blank"} -> <<"r_hdr_readline", "NetworkError">>
    [] part = "r_body_len" -> <<"r_body_read", "NetworkError">>

CutCase(ref, pos) ==
  LET part == PartAt(ref, pos) IN
  [mode |-> "cut", ctx |-> (IF part \in {"r_status", "r_header", "r_blank", "r_body_len"} THEN "robots" ELSE "page"),
   cls |-> ref, pos |-> pos, part |-> part, site |-> CutExpect(part)[1], kind |-> CutExpect(part)[2]]

\* every reference layout, every byte offset
CutCases == UNION {{CutCase(ref, pos) : pos \in 0..(Total(ref) - 1)} : ref \in DOMAIN Layouts}

-----------------------------------------------------------------------------
(* ---- (c) documents ---- *)
Alphabet(fmt) ==
  CASE fmt = "html" -> {"a_open", "a_href_rel", "a_href_ipv6", "a_href_nul", "a_href_badport", "a_href_surrogate_ref",
                        "a_href_huge", "a_href_js", "img_srcset_broken", "base_ipv6", "base_ok", "meta_refresh_ipv6",
                        "meta_refresh_empty", "meta_charset_klingon", "style_url_open", "style_attr_url_open",
                        "script_str_soup", "script_open", "comment_open", "cdata_open", "lt", "nul", "amp_soup",
                        "invalid_utf8", "lone_surrogate_utf8", "bom_utf16", "deep_nesting", "quote", "gt", "link_text_ipv6",
                        "object_codebase_ipv6", "object_codebase_attrname", "onclick_js", "data_attr", "attr_dup", "tag_nul"}
    [] fmt = "css"  -> {"url_open", "url_ok", "url_ipv6", "url_huge", "import_unclosed", "import_ok", "esc_surrogate",
                        "esc_big", "esc_eof", "quote", "nul", "invalid_utf8", "bom_utf16", "charset_rule_klingon",
                        "comment_open", "paren_close"}
    [] fmt = "js"   -> {"str_rel", "str_abs", "str_ipv6", "str_bad_escape", "str_surrogate_escape", "str_nul",
                        "str_huge", "quote", "squote", "backslash", "invalid_utf8", "bom_utf16", "slashes", "regex_soup",
                        "str_newline"}
    [] fmt = "sitemap" -> {"xml_decl", "urlset_open", "loc_ok", "loc_ipv6", "loc_empty", "loc_unclosed", "doctype_entities",
                           "entity_bomb_small", "cdata_loc", "nul", "invalid_utf8", "bom_utf16", "lt", "urlset_close",
                           "robots_sitemap_line", "robots_garbage"}

Formats == {"html", "css", "js", "sitemap"}
Charsets == {"none", "utf-8", "utf-16", "utf-7", "klingon", "empty", "latin-1"}   \* non-text codecs: wire class cs_*

DocSite(fmt) == CASE fmt = "html" -> "h_scrape_html" [] fmt \in {"css", "js"} -> "h_scrape_text"
                  [] fmt = "sitemap" -> "h_scrape_sitemap"

SeqsUpTo(A, n) == UNION {[1..m -> A] : m \in 0..n}

Doc(f, t, cs) == [mode |-> "doc", fmt |-> f, toks |-> t, cs |-> cs, site |-> DocSite(f), kind |-> "none"]

DocCases ==
  UNION {{Doc(f, t, "none") : t \in SeqsUpTo(Alphabet(f), DocLen)} : f \in Formats}
  \cup UNION {{Doc(f, t, cs) : t \in SeqsUpTo(Alphabet(f), 1), cs \in Charsets \ {"none"}} : f \in Formats}

-----------------------------------------------------------------------------
(* ---- (a) fault enumeration: the sites the driver can arm from outside ---- *)
Injectable == {"h_connect", "h_hdr_readline", "h_status_parse", "h_fields_parse", "h_redirect_load", "h_redirect_next",
               "h_cookie_extract", "h_writer_process_response", "h_body_read", "h_chunk_hdr_readline",
               "h_chunk_body_read", "h_chunk_nl_readline", "h_trailer_readline", "h_trailer_parse", "h_decompress",
               "h_flush", "h_save_document", "h_scrape_double", "h_child_url_parse",
               "r_connect", "r_hdr_readline", "r_status_parse", "r_fields_parse", "r_body_read", "r_decompress",
               "r_flush", "r_parse",
               "f_connect", "f_reply_readline", "f_reply_parse", "f_pasv_parse", "f_data_connect", "f_data_read",
               "f_end_readline", "f_listing_parse", "f_add_links",
               "fp_reply_readline", "fp_data_connect", "fp_listing_parse", "fp_pasv_parse", "fp_data_read"}

\* StreamReader.readline never raises IncompleteReadError (it returns the partial line): not injected there
ReadlineSites == {"h_hdr_readline", "h_chunk_hdr_readline", "h_chunk_nl_readline", "h_trailer_readline", "r_hdr_readline",
                  "f_reply_readline", "f_end_readline", "fp_reply_readline"}

FaultCases == {[mode |-> "fault", site |-> p[1], kind |-> p[2], provokable |-> (IF p \in Provokable THEN 1 ELSE 0),
                predicted |-> Predict(p[1], p[2]).out] :
               p \in {q \in Injectable \X Kinds : ~(q[1] \in ReadlineSites /\ q[2] = "IncompleteRead")}}

ASSUME Injectable \subseteq Sites
ASSUME WireWellFormed

-----------------------------------------------------------------------------
VARIABLE c
gvars == <<vars, c>>

Cases == CASE Which = "wire" -> WireCases [] Which = "cut" -> CutCases [] Which = "doc" -> DocCases
           [] Which = "fault" -> FaultCases

GInit == /\ c \in Cases
         /\ site = "h_connect" /\ kind0 = "Exception" /\ kind = "Exception" /\ idx = 1 /\ outcome = "flying"
         /\ seen = [p \in ObsFrames |-> "none"]
GNext == UNCHANGED gvars
GSpec == GInit /\ [][GNext]_gvars

Emit == PrintT(<<"CASE", ToJson(c)>>)
=============================================================================
