-------------------------- MODULE WebSessionTrace --------------------------
(***************************************************************************)
(* Strict trace validation for C16: is the recorded visit (the requests    *)
(* the fake server received, the answers it gave) a behaviour of           *)
(* WebSession.tla?  Every request on the wire must carry exactly the Host, *)
(* Authorization owner, cookie owners and referrer class the model of the  *)
(* code predicts.  A rejection is MODEL-DRIFT, never an alarm.             *)
(***************************************************************************)
EXTENDS WebSession, Json, IOUtils, TLCExt

Batch == JsonDeserialize(IOEnv.TRACE_FILE)
NT    == Len(Batch)

VARIABLES tid, l
tvars == <<vars, tid, l>>

T   == Batch[tid]
Ev  == T.ev
Cur == Ev[l]
Is(name) == l <= Len(Ev) /\ Cur.e = name
Step == l' = l + 1 /\ UNCHANGED tid
Range(s) == {s[i] : i \in 1..Len(s)}

TInit == /\ tid \in 1..NT /\ l = 1
         /\ InitWith(T.start, T.referer, T.login, {<<T.jar0[i], FALSE>> : i \in 1..Len(T.jar0)})

\* abstract image of the Host field values: [h, "def"] or [h, "alt", scheme]
TSend == /\ Is("send") /\ Step
         /\ Start
         /\ last'.url = Cur.curl
         /\ Cur.ahosts = <<last'.host>>
         /\ Range(Cur.auth) = (IF last'.auth = "none" THEN {} ELSE {last'.auth})
         /\ Range(Cur.cookies) = last'.cookie
         /\ Cur.referer = last'.referer

TRecv == /\ Is("recv") /\ Step
         /\ Respond(Cur.status, Cur.loc, Cur.locurl, Cur.setcookie)

TOutcome == /\ Is("outcome") /\ Step
            /\ phase = (IF Cur.v = "ok" THEN "done" ELSE "error")
            /\ UNCHANGED vars

TNext == TSend \/ TRecv \/ TOutcome
TSpec == TInit /\ [][TNext]_tvars

ASSUME \A i \in 1..(2 * NT) : TLCSet(i, 0)

Record == IF TLCGet(tid) < l THEN TLCSet(tid, l) ELSE TRUE

Post == PrintT(<<"VERDICTS_BEGIN",
                 [i \in 1..NT |-> <<TLCGet(i) - 1, 0, 0>>],
                 "VERDICTS_END">>)
=============================================================================
