--------------------------- MODULE HttpWireProps ---------------------------
(***************************************************************************)
(* C08 / C04 stated over observation variables only, plus the REFERENCE    *)
(* operators of HTTP/1.1 message framing, written from RFC 7230 section    *)
(* 3.3.3 (and 3.3.1, 4, 4.1) - not from the wpull code.                    *)
(*                                                                         *)
(* Shared by the implementation-shaped model (HttpWire.tla), the strict    *)
(* trace spec (HttpWireTrace.tla) and the observation monitor              *)
(* (HttpWireMon.tla).  The operators are untyped in the byte alphabet: the *)
(* model uses small integers / header-line tokens, the monitor the real    *)
(* octets 0..255 of the exchange.                                          *)
(*                                                                         *)
(* A message m (what an RFC-conformant or truncating server sends in       *)
(* answer to one request) is a record:                                     *)
(*   method   "GET" | "HEAD"          request method                       *)
(*   status   200 | 204 | 304 | ...   status code of the final response    *)
(*   te       Seq of lower-case transfer-coding names (<<>>: no TE field)  *)
(*   hascl, clok, clv   Content-Length present / syntactically valid /    *)
(*            its value                                                    *)
(*   ihead    octets of the interim 1xx responses sent first (may be <<>>) *)
(*   head     octets of the final response's status line + header block    *)
(*   chunked  TRUE: the body is in chunked format (chunks/last/trailer),   *)
(*            FALSE: the body octets are raw                               *)
(*   chunks   Seq of [hdr, data, end]; last: last-chunk line; trailer:     *)
(*            trailer fields + final CRLF                                  *)
(*   raw      body octets when not chunked (incl. surplus beyond CL)       *)
(*   trunc    the server stops (and closes) after this many octets;        *)
(*            NoTrunc: it sends everything                                 *)
(*   sclose   the server closes after sending                              *)
(*   coded, content   concrete runs only: a content coding is present and  *)
(*            `content` is the decoded payload (computed with zlib by the  *)
(*            harness, DESIGN section 8)                                   *)
(***************************************************************************)
EXTENDS Naturals, Sequences, FiniteSets, TLC

NoTrunc == 999999

Min(a, b) == IF a < b THEN a ELSE b
Prefix(s, n) == SubSeq(s, 1, Min(n, Len(s)))
Drop(s, n) == SubSeq(s, Min(n, Len(s)) + 1, Len(s))

RECURSIVE ChunkBytes(_)
ChunkBytes(cs) == IF cs = <<>> THEN <<>>
                  ELSE cs[1].hdr \o cs[1].data \o cs[1].end \o ChunkBytes(Tail(cs))
RECURSIVE ChunkData(_)
ChunkData(cs) == IF cs = <<>> THEN <<>> ELSE cs[1].data \o ChunkData(Tail(cs))

\* ---- what the server puts on the wire
WBody(m) == IF m.chunked THEN ChunkBytes(m.chunks) \o m.last \o m.trailer ELSE m.raw
Full(m)  == m.ihead \o m.head \o WBody(m)
SentLen(m) == IF m.trunc = NoTrunc THEN Len(Full(m)) ELSE Min(m.trunc, Len(Full(m)))
Sent(m)  == Prefix(Full(m), SentLen(m))
HeadEnd(m) == Len(m.ihead) + Len(m.head)
\* octets of the body region that actually arrive
BodySent(m) == IF SentLen(m) > HeadEnd(m) THEN SubSeq(Full(m), HeadEnd(m) + 1, SentLen(m)) ELSE <<>>

-----------------------------------------------------------------------------
(* RFC 7230 section 3.3.3 "Message Body Length", cases in the RFC's order. *)
(*  1. response to HEAD, 1xx, 204, 304: no body, whatever the header says  *)
(*  3. Transfer-Encoding present: chunked final coding -> chunked framing; *)
(*     otherwise the body ends when the connection closes (coding names    *)
(*     are case-insensitive, section 4: m.te is already lower-case)        *)
(*  4. no Transfer-Encoding, invalid Content-Length -> unrecoverable error *)
(*  5. no Transfer-Encoding, valid Content-Length -> that many octets      *)
(*  7. otherwise -> until the server closes                                *)
Bodyless(m) == m.method = "HEAD" \/ m.status \in 100..199 \/ m.status = 204 \/ m.status = 304

RefFraming(m) ==
  IF Bodyless(m) THEN "none"
  ELSE IF m.te # <<>> THEN (IF m.te[Len(m.te)] = "chunked" THEN "chunked" ELSE "close")
  ELSE IF m.hascl /\ ~m.clok THEN "invalid"
  ELSE IF m.hascl THEN "length"
  ELSE "close"

\* the message is complete on the wire.  Lenient reading (DESIGN section 7): a chunked message
\* is complete once the last-chunk line has arrived; Strict: once the trailer section has.
RefCompleteL(m, strict) ==
  LET f == RefFraming(m)
      n == SentLen(m) IN
  CASE f = "none"    -> n >= HeadEnd(m)
    [] f = "length"  -> n >= HeadEnd(m) + m.clv /\ m.clv <= Len(WBody(m))
    [] f = "chunked" -> n >= HeadEnd(m) + Len(ChunkBytes(m.chunks)) + Len(m.last)
                             + (IF strict THEN Len(m.trailer) ELSE 0)
    [] f = "close"   -> n >= HeadEnd(m)
    [] OTHER         -> FALSE
\* (The lenient reading was given up: "a message cut short by the peer is reported as an error" - a chunked message
\* ends with the line that ends its trailer section, RFC 7230 4.1.)
RefComplete(m)       == RefCompleteL(m, TRUE)
RefCompleteStrict(m) == RefCompleteL(m, TRUE)

\* the payload body (transfer coding "chunked" removed, content coding still applied)
RefPayload(m) ==
  LET f == RefFraming(m) IN
  CASE f = "none"    -> <<>>
    [] f = "length"  -> Prefix(WBody(m), m.clv)
    [] f = "chunked" -> ChunkData(m.chunks)
    [] f = "close"   -> BodySent(m)
    [] OTHER         -> <<>>

\* the octets that constitute the final response message (what an archive must hold)
RefMessageBytes(m) ==
  LET f == RefFraming(m) IN
  CASE f = "none"    -> m.head
    [] f = "length"  -> m.head \o Prefix(WBody(m), m.clv)
    [] f = "chunked" -> m.head \o BodySent(m)
    [] f = "close"   -> m.head \o BodySent(m)
    [] OTHER         -> m.head \o BodySent(m)     \* invalid framing: nothing delimits the message but the close
RefInterimBytes(m) == m.ihead

\* payload after removing the content coding
Expected(m) == IF m.coded THEN m.content ELSE RefPayload(m)

-----------------------------------------------------------------------------
CONSTANT NX     \* number of exchanges (in lockstep, on one connection while it is kept)
XS == 1..NX

\* the reference values of one message, evaluated once per message (by TLC) and kept in `ref`
RefRec(m) == [framing   |-> RefFraming(m),
              complete  |-> RefComplete(m),
              completeS |-> RefCompleteStrict(m),
              expected  |-> Expected(m),
              bytes     |-> RefMessageBytes(m),
              ibytes    |-> RefInterimBytes(m)]

VARIABLES
  msgs,          \* msgs[x]: the message the server sends in answer to request x
  ref,           \* ref[x] = RefRec(msgs[x])
  delivered,     \* delivered[x]: body octets handed to the download file
  recorded,      \* recorded[x]: concatenation of the response_data notifications (what the WARC recorder is fed)
  reqRecorded,   \* reqRecorded[x]: concatenation of the request_data notifications
  reqSent,       \* reqSent[x]: octets the server received for request x
  outcome,       \* outcome[x]: "none" | "ok" | "protocol_error" | "network_error" | "other_error" | "hang"
  connClosed,    \* connClosed[x]: the client had closed the connection when exchange x completed
  leftover,      \* leftover[x]: octets the client had received on that connection and not consumed at completion
  unseen,        \* unseen[x]: octets the server had sent and that had not yet reached the client at completion
  stalled,       \* stalled[x]: the client waited for octets beyond everything the server had to send
  fresh,         \* fresh[x]: request x went out on a connection opened for it (not on a kept one)
  reqRecs, respRecs,   \* number of WARC request / response records written for exchange x
  reqBlock, respBlock, \* their blocks (last one written)
  linked,        \* linked[x]: the response record names the request record of x as concurrent, both carry x's URL
  warcDone       \* the WARC file has been read back (monitor) / records are written synchronously (model)

obsvars == <<delivered, recorded, reqRecorded, reqSent, outcome, connClosed, leftover, unseen, stalled,
             reqRecs, respRecs, reqBlock, respBlock, linked, fresh>>

Done(x) == outcome[x] # "none"
Ok(x)   == outcome[x] = "ok"

\* Exchange x is outside the guarantee when an earlier exchange on the same (kept) connection completed while
\* octets the server had sent for it were still in flight (a surplus after a length-delimited body that arrives
\* later): the client cannot know about them, and they are what the next read sees.  (Lenient reading; the strict
\* one - PersistStrict - is reported as a note only.)
Taint(x) == \E j \in 1..(x - 1) : unseen[j] > 0 /\ \A i \in j..(x - 1) : ~connClosed[i]
Clean(x) == ~Taint(x)

\* ------------------------------------------------------------------ C08
\* the body handed to the caller is exactly the payload delimited by the framing rules
Payload       == \A x \in XS : (Clean(x) /\ Ok(x)) => delivered[x] = ref[x].expected
\* a message cut short (or with invalid framing) is never a success
TruncIsError  == \A x \in XS : (Clean(x) /\ Ok(x)) => ref[x].complete
\* (strict reading of DESIGN section 7 / finding 11 - not reported: a chunked message cut inside its trailer
\* section is an error too)
TruncIsErrorStrict == \A x \in XS : (Clean(x) /\ Ok(x)) => ref[x].completeS
\* a complete, well-framed message is a success (whatever the segmentation)
CompleteIsOk  == \A x \in XS : (Clean(x) /\ Done(x) /\ ref[x].completeS) => Ok(x)
\* the client only waits beyond the end of what the server sends when the framing is "until close"
NoOverRead    == \A x \in XS : (Clean(x) /\ stalled[x]) => ref[x].framing = "close"
\* after a success on a kept connection no received octet is left unconsumed: the next response is parsed
\* from its first byte; surplus bytes go away with the connection.  (Lenient reading: octets still in
\* flight when the response completes cannot be known to the client; PersistStrict counts them too.)
\* (What counts is that such octets are never READ as a later response: a kept connection that still holds some
\* must not carry the next request - fresh[x + 1]: exchange x + 1 went out on a connection opened for it.)
Persist       == \A x \in XS : (Clean(x) /\ Ok(x) /\ ~connClosed[x] /\ leftover[x] > 0)
                                   => (x + 1 \in XS /\ Done(x + 1) => fresh[x + 1])
\* a connection is kept only after the WHOLE message was consumed (its last line included): what the client left
\* unread of a message it declared complete would be read as the beginning of the next response.  (Octets not yet
\* received count as unread here: they belong to the message, not to a surplus the client cannot know about.)
Consumed(x)   == SentLen(msgs[x]) - leftover[x] - unseen[x]
WholeMessage  == \A x \in XS : (Clean(x) /\ Ok(x) /\ ~connClosed[x] /\ ref[x].framing # "close")
                                   => Consumed(x) >= Len(ref[x].ibytes) + Len(ref[x].bytes)
PersistStrict == \A x \in XS : (Ok(x) /\ ~connClosed[x]) => (leftover[x] = 0 /\ unseen[x] = 0)
NoHang        == \A x \in XS : outcome[x] # "hang"

\* ------------------------------------------------------------------ C04
RespOK(x, b)  == b = ref[x].bytes \/ b = ref[x].ibytes \o ref[x].bytes
RespBytes     == \A x \in XS : (Clean(x) /\ Ok(x)) => RespOK(x, recorded[x])
ReqBytes      == \A x \in XS : Done(x) => reqRecorded[x] = reqSent[x]
RecCount      == \A x \in XS : (warcDone /\ Ok(x)) => (reqRecs[x] = 1 /\ respRecs[x] = 1)
RecAtMostOne  == \A x \in XS : reqRecs[x] <= 1 /\ respRecs[x] <= 1
RecBlocks     == \A x \in XS : (warcDone /\ Ok(x) /\ reqRecs[x] = 1 /\ respRecs[x] = 1)
                                 => ((Clean(x) => RespOK(x, respBlock[x])) /\ reqBlock[x] = reqSent[x])
RecLinked     == \A x \in XS : (warcDone /\ Ok(x) /\ reqRecs[x] = 1 /\ respRecs[x] = 1) => linked[x]
=============================================================================
