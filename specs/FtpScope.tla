------------------------------ MODULE FtpScope ------------------------------
(***************************************************************************)
(* C02 for FTP crawls: which LIST / RETR commands may reach the server.    *)
(*                                                                         *)
(* PART A  the REFERENCE, written from the documented meaning of the       *)
(*         options (declarative: a least fixed point over the server's     *)
(*         tree).  Used by the design check below and by FtpScopeMon to    *)
(*         judge the commands a scripted server received from the real     *)
(*         wpull.                                                          *)
(* PART B  an implementation-shaped model of wpull's FTP recursion         *)
(*         (wpull/processor/ftp.py + urlfilter.py + the URL table): items  *)
(*         = URL records (URL, level, link type, root), a visit = filter   *)
(*         check, [listing of the parent directory to tell a file from a   *)
(*         directory], LIST or RETR, children recorded with the level      *)
(*         rules.  The design check is  "every command of the model lies   *)
(*         inside the reference" over an enumerated scenario space.        *)
(* PART C  the scenario space (trees x start URLs x options x server       *)
(*         flavour x workers); the same space is printed as JSON (GenInv)  *)
(*         and replayed into the real application by drivers/scope_ftp.py. *)
(*                                                                         *)
(* A scenario  sc = [tree, dots, mlsd, conc, starts, opt]                  *)
(*   tree   : sequence (= listing order) of [p |-> path, k |-> "f" | "d"]  *)
(*            a path is a sequence of names; the root <<>> is implicit     *)
(*   dots   : listings contain the entries "." and ".."                    *)
(*   mlsd   : the server implements MLSD (dots are then typed cdir/pdir)   *)
(*   starts : sequence of [p |-> path, slash |-> BOOLEAN]  (start URLs)    *)
(*   opt    : [r, lvl (0 = inf), np, glob, acc, rej, inc, exc, rxa, rxr]   *)
(***************************************************************************)
EXTENDS Naturals, Sequences, FiniteSets, TLC, Json

CONSTANTS BugGlobDirLevel,   \* TRUE: directories matched by a glob URL inherit its level (the seeded fault)
          Space,             \* which scenario space Init enumerates: "quick" | "full" | "none"
          RejByChar          \* TRUE: -R is not split at commas (see RejSuffixes); detected by the driver

Range(f) == {f[i] : i \in DOMAIN f}
MinOf(S) == CHOOSE x \in S : \A y \in S : x <= y
IsPrefix(a, b) == Len(a) <= Len(b) /\ SubSeq(b, 1, Len(a)) = a
Par(p) == IF p = <<>> THEN <<>> ELSE SubSeq(p, 1, Len(p) - 1)
Last(p) == p[Len(p)]

\* ------------------------------------------------------------------ strings
Ch(s, i) == SubSeq(s, i, i)
EndsWith(s, t) == Len(t) <= Len(s) /\ SubSeq(s, Len(s) - Len(t) + 1, Len(s)) = t
Contains(s, t) == Len(t) <= Len(s) /\ \E i \in 1..(Len(s) + 1 - Len(t)) : SubSeq(s, i, i + Len(t) - 1) = t
HasGlob(s) == \E i \in 1..Len(s) : Ch(s, i) \in {"*", "?", "[", "]"}

\* shell-style pattern matching (fnmatch.fnmatchcase): * ? [set] [!set]; no ranges (the scenarios use none)
CloseIdx(p, i) == LET from == IF i + 1 <= Len(p) /\ Ch(p, i + 1) = "!" THEN i + 3 ELSE i + 2
                      S == {j \in from..Len(p) : Ch(p, j) = "]"}
                  IN IF S = {} THEN 0 ELSE MinOf(S)
RECURSIVE GM(_, _, _, _)
GM(p, i, s, j) ==
  IF i > Len(p) THEN j > Len(s)
  ELSE LET c == Ch(p, i) IN
    IF c = "*" THEN GM(p, i + 1, s, j) \/ (j <= Len(s) /\ GM(p, i, s, j + 1))
    ELSE IF j > Len(s) THEN FALSE
    ELSE IF c = "?" THEN GM(p, i + 1, s, j + 1)
    ELSE IF c = "[" /\ CloseIdx(p, i) # 0
      THEN LET k    == CloseIdx(p, i)
               neg  == Ch(p, i + 1) = "!"
               from == IF neg THEN i + 2 ELSE i + 1
               hit  == Ch(s, j) \in {Ch(p, m) : m \in from..(k - 1)}
           IN (hit # neg) /\ GM(p, k + 1, s, j + 1)
    ELSE c = Ch(s, j) /\ GM(p, i + 1, s, j + 1)
GlobMatch(pat, name) == GM(pat, 1, name, 1)

RECURSIVE Join(_)
Join(p) == IF p = <<>> THEN "" ELSE "/" \o Head(p) \o Join(Tail(p))
\* the URL text (what the regular expressions are matched against)
Text(p, slash) == "ftp://h.test" \o Join(p) \o (IF slash \/ p = <<>> THEN "/" ELSE "")

\* ------------------------------------------------------------------ the server's tree
TreeSet(sc) == Range(sc.tree)
Kind(sc, p) == IF p = <<>> THEN "d"
               ELSE LET S == {e \in TreeSet(sc) : e.p = p} IN IF S = {} THEN "n" ELSE (CHOOSE e \in S : TRUE).k
Ents(sc, d) == {e \in TreeSet(sc) : Len(e.p) = Len(d) + 1 /\ Par(e.p) = d}

(***************************************************************************)
(* PART A - the reference.                                                 *)
(*                                                                         *)
(* A node is something the crawl may ask the server about:                 *)
(*   [p, k, lvl, root, ns]   k = "f" file (RETR p), "d" directory (LIST p),*)
(*   "g" glob URL (LIST of the directory of p, p's last name = pattern);   *)
(*   lvl = recursion depth; root = directory of the start URL it descends  *)
(*   from (for --no-parent); ns = a start URL of a directory that was      *)
(*   written without the trailing slash.                                   *)
(* Depth:  start URLs have depth 0; the entries of a listed directory are  *)
(*   one level deeper than the directory; a glob URL stands for the files  *)
(*   it matches (same depth) - the directories it matches are one level    *)
(*   deeper, i.e. they are listed only under -r and count towards -l.      *)
(* Rules (each from the option's documented meaning, lenient reading       *)
(*   where the documentation leaves room):                                 *)
(*   Recursive  depth 0, or -r                                             *)
(*   Level      under -r with -l N (N > 0; default 5): depth <= N          *)
(*   Parent     --no-parent: the directory of the URL lies in or below the *)
(*              directory of its start URL                                 *)
(*   Directory  -I: the path lies in or below a listed directory           *)
(*              (a glob URL: its directory lies below, or above, one);     *)
(*              -X: the path does not lie in or below a listed directory   *)
(*   Filename   -A / -R suffix lists apply to FILES only                   *)
(*   Regex      --accept-regex / --reject-regex on the URL text (a literal *)
(*              in the scenarios); a directory URL given without slash may *)
(*              be judged in either spelling; a glob URL is judged by its  *)
(*              directory and only against the reject expression           *)
(*   Glob       (attribution only) the path is not matched by the pattern  *)
(*   Tries      --tries 1 (all scenarios): a file is retrieved at most once *)
(* --follow-ftp does not matter: the parent of every URL is an ftp URL.    *)
(***************************************************************************)
RuleNames == <<"Recursive", "Level", "Parent", "Directory", "Filename", "Regex", "Glob", "Unreachable", "Tries">>

IsGlobStart(sc, s) == sc.opt.glob /\ ~s.slash /\ s.p # <<>> /\ HasGlob(Last(s.p))
StartNode(sc, s) ==
  IF IsGlobStart(sc, s) THEN [p |-> s.p, k |-> "g", lvl |-> 0, root |-> Par(s.p), ns |-> FALSE]
  ELSE IF s.slash \/ s.p = <<>> THEN [p |-> s.p, k |-> "d", lvl |-> 0, root |-> s.p, ns |-> FALSE]
  ELSE [p |-> s.p, k |-> (IF Kind(sc, s.p) = "d" THEN "d" ELSE "f"), lvl |-> 0, root |-> Par(s.p), ns |-> TRUE]
Starts(sc) == {StartNode(sc, s) : s \in Range(sc.starts)}

ListedDir(n) == IF n.k = "g" THEN Par(n.p) ELSE n.p
Matches(n, name) == n.k = "d" \/ GlobMatch(Last(n.p), name)
DotKids(sc, n, d) ==
  IF ~sc.dots THEN {}
  ELSE {[p |-> c.p, k |-> "d", lvl |-> n.lvl + 1, root |-> n.root, ns |-> FALSE]
          : c \in {c \in {[nm |-> ".", p |-> d], [nm |-> "..", p |-> Par(d)]} : Matches(n, c.nm)}}
Kids(sc, n) ==
  LET d == ListedDir(n) IN
  IF n.k = "f" \/ Kind(sc, d) # "d" THEN {}
  ELSE {[p |-> e.p, k |-> e.k, lvl |-> (IF n.k = "g" /\ e.k = "f" THEN n.lvl ELSE n.lvl + 1), root |-> n.root, ns |-> FALSE]
          : e \in {e \in Ents(sc, d) : Matches(n, Last(e.p))}}
       \cup DotKids(sc, n, d)

NDir(n) == IF n.k = "d" THEN n.p ELSE Par(n.p)
Texts(n) == IF n.k = "d" THEN {Text(n.p, TRUE)} \cup (IF n.ns THEN {Text(n.p, FALSE)} ELSE {})
            ELSE IF n.k = "g" THEN {Text(Par(n.p), TRUE)} ELSE {Text(n.p, FALSE)}

RuleOK(sc, n, r) ==
  LET o == sc.opt IN
  CASE r = "Recursive" -> n.lvl = 0 \/ o.r
    [] r = "Level"     -> (o.r /\ o.lvl > 0) => n.lvl <= o.lvl
    [] r = "Parent"    -> o.np => IsPrefix(n.root, NDir(n))
    [] r = "Directory" -> LET q == IF n.k = "g" THEN Par(n.p) ELSE n.p IN
                          /\ \/ o.inc = <<>>
                             \/ \E d \in Range(o.inc) : IsPrefix(d, q) \/ (n.k = "g" /\ IsPrefix(q, d))
                          /\ ~\E d \in Range(o.exc) : IsPrefix(d, q)
    [] r = "Filename"  -> n.k = "f" => /\ (o.acc = <<>> \/ \E s \in Range(o.acc) : EndsWith(Last(n.p), s))
                                       /\ ~\E s \in Range(o.rej) : EndsWith(Last(n.p), s)
    [] r = "Regex"     -> \E t \in Texts(n) : /\ (o.rxa = "" \/ n.k = "g" \/ Contains(t, o.rxa))
                                              /\ (o.rxr = "" \/ ~Contains(t, o.rxr))
Pass(sc, n) == \A i \in 1..6 : RuleOK(sc, n, RuleNames[i])

\* Levels above Cap are never needed: a derivation that long repeats a directory ("." / ".." cycles) and has a
\* shorter variant that gives every later node a smaller depth; all depth-dependent rules are downward closed.
Cap(sc) == Cardinality({e \in TreeSet(sc) : e.k = "d"}) + 3
RECURSIVE Fix(_, _, _)
Fix(sc, R, filt) ==
  LET X == {n \in R : n.k # "f" /\ (~filt \/ Pass(sc, n))}
      N == R \cup {m \in UNION {Kids(sc, n) : n \in X} : m.lvl <= Cap(sc)}
  IN IF N = R THEN R ELSE Fix(sc, N, filt)
Reach(sc)  == Fix(sc, Starts(sc), TRUE)      \* what a crawl obeying every rule can get to know
Reach0(sc) == Fix(sc, Starts(sc), FALSE)     \* ... ignoring every rule (for the attribution of a violation)

\* the reference sets; the documented exception pe: the PARENT directory of a start URL written without trailing
\* slash may be listed (wpull does so to find out whether the start URL names a file or a directory; for a glob
\* URL that listing is the visit itself and is in ml anyway) - provided the start URL itself passes the rules.
RefOf(sc) ==
  LET ok == {n \in Reach(sc) : Pass(sc, n)} IN
  [ml |-> {ListedDir(n) : n \in {m \in ok : m.k # "f"}},
   mr |-> {n.p : n \in {m \in ok : m.k = "f"}},
   pe |-> {Par(n.p) : n \in {m \in Starts(sc) : m.ns /\ Pass(sc, m)}}]

Listing(c) == c \in {"LIST", "MLSD", "NLST", "CWD", "STAT", "MLST"}
\* the C02 clause: a command for a path outside the reference is a violation.  Whether an in-scope path is asked
\* for with the right KIND of command (LIST vs RETR) is not a scope question: KindOK is reported as drift only.
InScope(rf, c, p) == p \in rf.ml \cup rf.mr \cup (IF Listing(c) THEN rf.pe ELSE {})
KindOK(rf, c, p)  == IF Listing(c) THEN p \in rf.ml \cup rf.pe ELSE p \in rf.mr

\* which rule a path outside the reference fails (index into RuleNames): the rule its shallowest unfiltered
\* derivation fails; if that derivation passes every rule itself, the rule its directory fails; 7 = it lies below the
\* directory of a start URL with glob characters but is not matched by the pattern (or globbing is switched off);
\* 8 = not reachable from the start URLs at all
Cands(sc, R0, q) == {n \in R0 : (n.k # "g" /\ n.p = q) \/ (n.k = "g" /\ Par(n.p) = q)}
FirstFail(sc, n) == LET F == {i \in 1..6 : ~RuleOK(sc, n, RuleNames[i])} IN IF F = {} THEN 0 ELSE MinOf(F)
RECURSIVE Why(_, _, _, _)
Why(sc, R0, q, fuel) ==
  LET C == Cands(sc, R0, q) IN
  IF C = {}
  THEN LET PS == {m \in Starts(sc) : m.ns /\ Par(m.p) = q /\ ~Pass(sc, m)} IN     \* parent of a start URL that fails
       IF PS # {} THEN MinOf({FirstFail(sc, m) : m \in PS})
       ELSE IF \E s \in Range(sc.starts) : ~s.slash /\ s.p # <<>> /\ HasGlob(Last(s.p)) /\ IsPrefix(Par(s.p), q)
       THEN 7 ELSE 8
  ELSE LET lo == MinOf({n.lvl : n \in C})
           ff == {FirstFail(sc, n) : n \in {m \in C : m.lvl = lo}}
       IN IF 0 \notin ff THEN MinOf(ff)
          ELSE IF q = <<>> \/ fuel = 0 THEN 8 ELSE Why(sc, R0, Par(q), fuel - 1)
RuleOfPath(sc, q) == Why(sc, Reach0(sc), q, 6)

(***************************************************************************)
(* PART B - the model of the implementation.                               *)
(*   tbl   the URL table, in insertion order: [u, lvl, lt, root, st, tries]*)
(*         u = [p, slash] (URL), lt = link type none|file|directory        *)
(*   wk    per worker: [pc, i, rp, rslash, isfile, pat, st, kids]          *)
(*   cache directories whose listing FTPProcessor.listing_cache holds      *)
(*   cmds  the commands sent so far: set of [c, p]                         *)
(*   ref   RefOf(sc), computed once                                        *)
(***************************************************************************)
VARIABLES sc, tbl, wk, cache, cmds, ref
vars == <<sc, tbl, wk, cache, cmds, ref>>

Workers == 1..sc.conc
U(p, slash) == [p |-> p, slash |-> (slash \/ p = <<>>)]
UrlDir(u) == IF u.slash THEN u.p ELSE Par(u.p)
UName(u)  == IF u.slash \/ u.p = <<>> THEN "" ELSE Last(u.p)

\* -R lacks type=comma_list in wpull/application/options.py: BackwardFilenameFilter then iterates over the CHARACTERS
\* of the option string (over-restrictive, hence harmless for C02; the model describes the code as it is)
RejSuffixes(o) == IF RejByChar
                  THEN UNION {{Ch(s, i) : i \in 1..Len(s)} : s \in Range(o.rej)} \cup (IF Len(o.rej) > 1 THEN {","} ELSE {})
                  ELSE Range(o.rej)

\* the filter list of wpull/application/tasks/rule.py as the options of the scenarios build it, on a URL record
ImplVerdict(s, rec) ==
  LET o == s.opt
      u == rec.u
      t == Text(u.p, u.slash)
      nm == UName(u)
  IN /\ rec.lvl = 0 \/ o.r                                                        \* RecursiveFilter
     /\ (o.r /\ o.lvl > 0) => rec.lvl <= o.lvl                                    \* LevelFilter
     /\ o.np => IsPrefix(UrlDir(rec.root), UrlDir(u))                             \* ParentFilter
     /\ rec.tries < 1                                                             \* TriesFilter (--tries 1)
     /\ (o.rxa = "" \/ Contains(t, o.rxa)) /\ (o.rxr = "" \/ ~Contains(t, o.rxr)) \* RegexFilter
     /\ (o.inc = <<>> \/ \E d \in Range(o.inc) : IsPrefix(d, u.p))                \* DirectoryFilter
     /\ ~\E d \in Range(o.exc) : IsPrefix(d, u.p)
     /\ \/ nm = ""                                                                \* BackwardFilenameFilter
        \/ /\ (o.acc = <<>> \/ \E x \in Range(o.acc) : EndsWith(nm, x))
           /\ ~\E c \in RejSuffixes(o) : EndsWith(nm, c)

IdleW == [pc |-> "idle", i |-> 0, rp |-> <<>>, rslash |-> FALSE, isfile |-> FALSE, pat |-> "", st |-> "", kids |-> <<>>]

RECURSIVE Dedup(_, _)
Dedup(s, seen) == IF s = <<>> THEN <<>>
                  ELSE IF Head(s).u \in seen THEN Dedup(Tail(s), seen)
                  ELSE <<Head(s)>> \o Dedup(Tail(s), seen \cup {Head(s).u})

SeedRec(s) == LET u == U(s.p, s.slash) IN [u |-> u, lvl |-> 0, lt |-> "none", root |-> u, st |-> "todo", tries |-> 0]

InitWith(s) ==
  /\ sc = s
  /\ tbl = Dedup([i \in 1..Len(s.starts) |-> SeedRec(s.starts[i])], {})
  /\ wk = [w \in 1..s.conc |-> IdleW]
  /\ cache = {}
  /\ cmds = {}
  /\ ref = RefOf(s)

\* the item the producer hands out next: the first "todo" row; rows in state "error" are handed out again when no
\* "todo" row is left (they then fail the tries rule and are skipped)
Todo  == {i \in 1..Len(tbl) : tbl[i].st = "todo"}
Errs  == {i \in 1..Len(tbl) : tbl[i].st = "error"}
NextItems == IF Todo # {} THEN {MinOf(Todo)} \cup Errs ELSE Errs

\* FTPProcessorSession.process up to the first network operation
Begin(w, i) ==
  /\ wk[w].pc = "idle" /\ i \in NextItems
  /\ LET rec == tbl[i]
         u   == rec.u
         nm  == UName(u)
     IN /\ tbl' = [tbl EXCEPT ![i].st = "prog"]
        /\ wk' = [wk EXCEPT ![w] =
             IF ~ImplVerdict(sc, rec) THEN [IdleW EXCEPT !.pc = "fin", !.i = i, !.st = "skipped"]
             ELSE IF sc.opt.glob /\ HasGlob(nm)                       \* glob URL: list its directory, keep the pattern
               THEN [IdleW EXCEPT !.pc = "fetch", !.i = i, !.rp = Par(u.p), !.rslash = TRUE, !.pat = nm]
             ELSE IF rec.lt # "none"                                  \* from a listing: the type is known
               THEN [IdleW EXCEPT !.pc = "fetch", !.i = i, !.rp = u.p, !.rslash = u.slash, !.isfile = (rec.lt = "file")]
             ELSE IF u.slash
               THEN [IdleW EXCEPT !.pc = "fetch", !.i = i, !.rp = u.p, !.rslash = TRUE]
             ELSE [IdleW EXCEPT !.pc = "parent", !.i = i, !.rp = u.p]]
  /\ UNCHANGED <<sc, cache, cmds, ref>>

\* _prepare_request_file_vs_dir / _fetch_parent_path: file or directory?  ask the listing of the parent directory
IsDirByParent(p) == Kind(sc, Par(p)) = "d" /\ Kind(sc, p) = "d"
Decide(w) == [wk[w] EXCEPT !.pc = "fetch", !.rslash = IsDirByParent(wk[w].rp), !.isfile = ~IsDirByParent(wk[w].rp)]
ParentCached(w) ==
  /\ wk[w].pc = "parent" /\ Par(wk[w].rp) \in cache
  /\ wk' = [wk EXCEPT ![w] = Decide(w)]
  /\ UNCHANGED <<sc, tbl, cache, cmds, ref>>
ParentFetch(w) ==
  /\ wk[w].pc = "parent" /\ Par(wk[w].rp) \notin cache
  /\ cmds' = cmds \cup {[c |-> "LIST", p |-> Par(wk[w].rp)]}
  /\ wk' = [wk EXCEPT ![w].pc = "pwait"]
  /\ UNCHANGED <<sc, tbl, cache, ref>>
ParentDone(w) ==
  /\ wk[w].pc = "pwait"
  /\ cache' = cache \cup {Par(wk[w].rp)}
  /\ wk' = [wk EXCEPT ![w] = Decide(w)]
  /\ UNCHANGED <<sc, tbl, cmds, ref>>

\* _add_listing_links: the entries of a listing, in listing order, as child records
Norm(d, nm) == IF nm = "." THEN d ELSE IF nm = ".." THEN Par(d) ELSE Append(d, nm)
EntrySeq(d) == (IF sc.dots /\ ~sc.mlsd THEN <<[nm |-> ".", k |-> "d"], [nm |-> "..", k |-> "d"]>> ELSE <<>>)
               \o [j \in 1..Len(SelectSeq(sc.tree, LAMBDA e : e \in Ents(sc, d)))
                     |-> LET e == SelectSeq(sc.tree, LAMBDA x : x \in Ents(sc, d))[j] IN [nm |-> Last(e.p), k |-> e.k]]
ChildRec(rec, d, pat, e) ==
  LET lvl == IF e.k = "d" THEN (IF pat # "" /\ BugGlobDirLevel THEN rec.lvl ELSE rec.lvl + 1)
             ELSE (IF pat # "" THEN rec.lvl ELSE rec.lvl + 1)
  IN [u |-> (IF e.k = "d" THEN U(Norm(d, e.nm), TRUE) ELSE U(Append(d, e.nm), FALSE)),
      lvl |-> lvl, lt |-> (IF e.k = "d" THEN "directory" ELSE "file"), root |-> rec.root, st |-> "todo", tries |-> 0]
KidsOf(rec, d, pat) ==
  LET es == SelectSeq(EntrySeq(d), LAMBDA e : pat = "" \/ GlobMatch(pat, e.nm))
  IN [j \in 1..Len(es) |-> ChildRec(rec, d, pat, es[j])]

\* _fetch: RETR of a file / LIST of a directory
FetchCmd(w) ==
  /\ wk[w].pc = "fetch"
  /\ LET x == wk[w] IN
     IF x.isfile
     THEN /\ cmds' = cmds \cup {[c |-> "RETR", p |-> x.rp]}
          /\ wk' = [wk EXCEPT ![w].pc = "fin",
                              ![w].st = IF Kind(sc, x.rp) = "f" /\ ~x.rslash THEN "done" ELSE "error"]
     ELSE /\ cmds' = cmds \cup {[c |-> "LIST", p |-> x.rp]}
          /\ wk' = [wk EXCEPT ![w].pc = "fin",
                              ![w].st = IF Kind(sc, x.rp) = "d" THEN "skipped" ELSE "error",
                              ![w].kids = IF Kind(sc, x.rp) = "d" THEN KidsOf(tbl[x.i], x.rp, x.pat) ELSE <<>>]
  /\ UNCHANGED <<sc, tbl, cache, ref>>

\* ItemSession.finish: check the item in, then add the children that the table does not know yet
Known == {tbl[i].u : i \in 1..Len(tbl)}
Finish(w) ==
  /\ wk[w].pc = "fin"
  /\ LET x == wk[w] IN
     tbl' = [tbl EXCEPT ![x.i].st = x.st, ![x.i].tries = IF x.st = "error" THEN @ + 1 ELSE @] \o Dedup(x.kids, Known)
  /\ wk' = [wk EXCEPT ![w] = IdleW]
  /\ UNCHANGED <<sc, cache, cmds, ref>>

DoBegin        == \E w \in Workers, i \in 1..Len(tbl) : Begin(w, i)
DoParentCached == \E w \in Workers : ParentCached(w)
DoParentFetch  == \E w \in Workers : ParentFetch(w)
DoParentDone   == \E w \in Workers : ParentDone(w)
DoFetchCmd     == \E w \in Workers : FetchCmd(w)
DoFinish       == \E w \in Workers : Finish(w)
Next == DoBegin \/ DoParentCached \/ DoParentFetch \/ DoParentDone \/ DoFetchCmd \/ DoFinish

\* ---- properties of the model (design check)
CmdsInScope == \A c \in cmds : InScope(ref, c.c, c.p)
CmdKindsOK  == \A c \in cmds : KindOK(ref, c.c, c.p)
\* a record the implementation's filters accept is a node the reference accepts, with a depth the reference can derive
RecordsSound ==
  \A i \in 1..Len(tbl) :
    LET rec == tbl[i] IN
    (rec.lt # "none" /\ ImplVerdict(sc, [rec EXCEPT !.tries = 0]) /\ ~(sc.opt.glob /\ HasGlob(UName(rec.u))))
      => IF rec.lt = "file" THEN rec.u.p \in ref.mr ELSE rec.u.p \in ref.ml
TypeOK ==
  /\ \A i \in 1..Len(tbl) : tbl[i].st \in {"todo", "prog", "done", "skipped", "error"} /\ tbl[i].lvl \in 0..40
  /\ \A w \in Workers : wk[w].pc \in {"idle", "parent", "pwait", "fetch", "fin"}
  /\ Cardinality(Known) = Len(tbl)

(***************************************************************************)
(* PART C - the scenario space.                                            *)
(***************************************************************************)
F(p) == [p |-> p, k |-> "f"]
D(p) == [p |-> p, k |-> "d"]
S1(p) == [p |-> p, slash |-> TRUE]
S0(p) == [p |-> p, slash |-> FALSE]

\* names that share prefixes (/pub, /pub-old, /pub2), depth 3, a name that globs match together with files
TreeA == << D(<<"pub">>), F(<<"pub", "a.txt">>), F(<<"pub", "n1.txt">>), F(<<"pub", "n2.bin">>),
            D(<<"pub", "nest">>), F(<<"pub", "nest", "x.bin">>), F(<<"pub", "nest", "y.txt">>),
            D(<<"pub", "nest", "deep">>), F(<<"pub", "nest", "deep", "z.txt">>),
            D(<<"pub", "private">>), F(<<"pub", "private", "s.txt">>),
            D(<<"pub-old">>), F(<<"pub-old", "o.txt">>), D(<<"pub2">>), F(<<"pub2", "p.bin">>), F(<<"readme">>) >>
\* names with glob characters
TreeB == << D(<<"g">>), F(<<"g", "f1.txt">>), F(<<"g", "f[1].txt">>), F(<<"g", "s*">>), D(<<"g", "sub">>),
            F(<<"g", "sub", "k.txt">>), D(<<"g", "s[x]">>), F(<<"g", "s[x]", "m.txt">>) >>
\* small, for the "." / ".." listings
TreeC == << D(<<"a">>), D(<<"a", "b">>), F(<<"a", "b", "c.txt">>), F(<<"a", "t.txt">>), D(<<"a2">>), F(<<"a2", "u.txt">>),
            F(<<"r.txt">>) >>

StartsA == { <<S1(<<"pub">>)>>, <<S0(<<"pub">>)>>, <<S1(<<"pub", "nest">>)>>, <<S0(<<"pub", "nest">>)>>, <<S1(<<>>)>>,
             <<S1(<<"pub", "private">>)>>, <<S0(<<"pub-old">>)>>,
             <<S0(<<"pub", "a.txt">>)>>, <<S0(<<"readme">>)>>, <<S0(<<"pub", "nest", "deep", "z.txt">>)>>,
             <<S0(<<"pub", "zz">>)>>, <<S1(<<"pub", "a.txt">>)>>,
             <<S0(<<"pub", "n*">>)>>, <<S0(<<"pub", "*.txt">>)>>, <<S0(<<"pub", "p*">>)>>, <<S0(<<"pub*">>)>>,
             <<S0(<<"pub", "n[12].*">>)>>, <<S0(<<"pub", "*">>)>>, <<S0(<<"pub", "nest", "*">>)>>,
             <<S0(<<"pub", "private", "*">>)>>,
             <<S1(<<"pub">>), S0(<<"pub-old", "o.txt">>)>>, <<S0(<<"pub", "nest">>), S0(<<"pub", "n*">>)>>,
             <<S0(<<"pub", "a.txt">>), S1(<<"pub", "nest">>)>>, <<S1(<<"pub2">>), S0(<<"pub", "private", "s.txt">>)>>,
             <<S0(<<"pub", "n*">>), S1(<<"pub">>)>> }
StartsAQuick == { <<S1(<<"pub">>)>>, <<S0(<<"pub">>)>>, <<S0(<<"pub", "a.txt">>)>>, <<S0(<<"pub", "n*">>)>>,
                  <<S0(<<"pub", "*.txt">>)>>, <<S0(<<"pub*">>)>>, <<S0(<<"pub", "private", "*">>)>>,
                  <<S0(<<"pub", "nest">>), S0(<<"pub", "n*">>)>>, <<S1(<<"pub2">>), S0(<<"pub", "private", "s.txt">>)>> }
StartsB == { <<S1(<<"g">>)>>, <<S0(<<"g", "f[1].txt">>)>>, <<S0(<<"g", "s*">>)>>, <<S0(<<"g", "s[x]">>)>>,
             <<S1(<<"g", "s[x]">>)>>, <<S0(<<"g", "f*.txt">>)>>, <<S0(<<"g", "[!f]*">>)>> }
StartsC == { <<S1(<<"a">>)>>, <<S0(<<"a", "b">>)>>, <<S0(<<"a", "*">>)>>, <<S0(<<"a", "b", "c.txt">>)>>,
             <<S1(<<"a", "b">>), S0(<<"r.txt">>)>> }

O0 == [r |-> FALSE, lvl |-> 5, np |-> FALSE, glob |-> TRUE, acc |-> <<>>, rej |-> <<>>, inc |-> <<>>, exc |-> <<>>,
       rxa |-> "", rxr |-> ""]
Bases == { O0, [O0 EXCEPT !.r = TRUE], [O0 EXCEPT !.r = TRUE, !.lvl = 1], [O0 EXCEPT !.r = TRUE, !.lvl = 2],
           [O0 EXCEPT !.r = TRUE, !.lvl = 0] }
\* one extra option: a function from option records to option records
Ex(name, o) ==
  CASE name = "none"   -> o
    [] name = "np"     -> [o EXCEPT !.np = TRUE]
    [] name = "noglob" -> [o EXCEPT !.glob = FALSE]
    [] name = "A"      -> [o EXCEPT !.acc = <<"txt">>]
    [] name = "R"      -> [o EXCEPT !.rej = <<"txt">>]
    [] name = "I"      -> [o EXCEPT !.inc = <<(<<"pub">>)>>]
    [] name = "I2"     -> [o EXCEPT !.inc = <<(<<"pub", "nest">>), (<<"pub2">>)>>]
    [] name = "X"      -> [o EXCEPT !.exc = <<(<<"pub", "private">>)>>]
    [] name = "X2"     -> [o EXCEPT !.exc = <<(<<"pub">>)>>]
    [] name = "rxr"    -> [o EXCEPT !.rxr = "private"]
    [] name = "rxa"    -> [o EXCEPT !.rxa = "pub/"]
    [] name = "Rb"     -> [o EXCEPT !.rej = <<"bin">>]
ExNames == {"none", "np", "noglob", "A", "R", "I", "I2", "X", "X2", "rxr", "rxa", "Rb"}
ExPairs == { <<"np", "X">>, <<"A", "X">>, <<"R", "I">>, <<"noglob", "A">>, <<"I", "X">>, <<"rxr", "A">>, <<"np", "A">>,
             <<"rxa", "R">>, <<"noglob", "X">>, <<"I2", "Rb">>, <<"np", "noglob">>, <<"rxa", "X">> }
OptsFull  == {Ex(e, b) : e \in ExNames, b \in Bases}
             \cup {Ex(pr[2], Ex(pr[1], b)) : pr \in ExPairs, b \in {[O0 EXCEPT !.r = TRUE], [O0 EXCEPT !.r = TRUE, !.lvl = 1], O0}}
OptsQuick == {Ex(e, b) : e \in {"none", "np", "A", "X", "rxr"}, b \in {O0, [O0 EXCEPT !.r = TRUE], [O0 EXCEPT !.r = TRUE, !.lvl = 1]}}
             \cup {Ex("I", Ex("R", [O0 EXCEPT !.r = TRUE])), Ex("noglob", O0), Ex("noglob", [O0 EXCEPT !.r = TRUE])}
\* the glob-name tree: option values that mean something there
OptsB == { O0, [O0 EXCEPT !.r = TRUE], [O0 EXCEPT !.r = TRUE, !.lvl = 1], [O0 EXCEPT !.glob = FALSE],
           [O0 EXCEPT !.r = TRUE, !.glob = FALSE], [O0 EXCEPT !.r = TRUE, !.exc = <<(<<"g", "sub">>)>>],
           [O0 EXCEPT !.r = TRUE, !.acc = <<"txt">>] }
OptsC == { O0, [O0 EXCEPT !.r = TRUE], [O0 EXCEPT !.r = TRUE, !.lvl = 1], [O0 EXCEPT !.r = TRUE, !.lvl = 2],
           [O0 EXCEPT !.r = TRUE, !.np = TRUE], [O0 EXCEPT !.np = TRUE], [O0 EXCEPT !.r = TRUE, !.np = TRUE, !.lvl = 2],
           [O0 EXCEPT !.r = TRUE, !.exc = <<(<<"a2">>)>>], [O0 EXCEPT !.r = TRUE, !.inc = <<(<<"a">>)>>],
           [O0 EXCEPT !.r = TRUE, !.rxr = "a2"], [O0 EXCEPT !.r = TRUE, !.lvl = 0, !.acc = <<"txt">>] }

Block(tree, starts, opts, dots, mlsd, conc) ==
  {[tree |-> tree, dots |-> d, mlsd |-> m, conc |-> c, starts |-> s, opt |-> o]
     : s \in starts, o \in opts, d \in dots, m \in mlsd, c \in conc}

Scenarios ==
  CASE Space = "quick" -> Block(TreeA, StartsAQuick, OptsQuick, {FALSE}, {FALSE}, {1, 2})
                          \cup Block(TreeC, StartsC, OptsC, {TRUE}, {FALSE}, {1})
                          \cup Block(TreeB, StartsB, {O0, [O0 EXCEPT !.r = TRUE]}, {FALSE}, {FALSE}, {1})
    [] Space = "full"  -> Block(TreeA, StartsA, OptsFull, {FALSE}, {FALSE}, {1, 2})
                          \cup Block(TreeA, StartsAQuick, OptsQuick, {TRUE}, {FALSE, TRUE}, {1})
                          \cup Block(TreeC, StartsC, OptsC, {FALSE, TRUE}, {FALSE, TRUE}, {1, 2})
                          \cup Block(TreeB, StartsB, OptsB, {FALSE, TRUE}, {FALSE}, {1, 2})
    [] OTHER -> {}

Init == \E s \in Scenarios : InitWith(s)
Spec == Init /\ [][Next]_vars

\* scenario generation: every initial state printed as JSON (cfg: SPECIFICATION GenSpec, INVARIANT GenInv)
GenSpec == Init /\ [][UNCHANGED vars]_vars
GenInv  == PrintT(<<"SCEN", ToJson(sc)>>)
=============================================================================
