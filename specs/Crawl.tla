-------------------------------- MODULE Crawl --------------------------------
(***************************************************************************)
(* Implementation-shaped model of a wpull crawl:                           *)
(*   URL table (rows with status / level / try count / insertion id)       *)
(*   producer (check-out ahead of the workers), N workers,                 *)
(*   the visit loop of WebProcessorSession (filters, robots.txt, request,  *)
(*   redirect hops, result -> status), the two transactions that end a     *)
(*   visit (children, status), start-up (release, add start URL), exit,    *)
(*   and process death + rerun of the same command.                        *)
(* One action per database transaction or wire exchange, in the order the  *)
(* code performs them.  The SITE (links, server behaviour, hosts, robots   *)
(* rules) is chosen in Init and never changes: one TLC run covers every    *)
(* site graph within the bounds.                                           *)
(*                                                                         *)
(* Decides, on the model, C01 (exactly once, complete, all rows final),    *)
(* C03 (kill + resume), C18 (bounded work per URL, termination),           *)
(* C20 (robots), and the crawl-level part of C02 (no out-of-scope request).*)
(***************************************************************************)
EXTENDS Naturals, FiniteSets, Sequences, TLC

CONSTANTS
  NU,            \* URLs 1..NU; URL 1 is the start URL
  N,             \* concurrency (workers)
  Level,         \* --level (0 = unlimited)
  Tries,         \* --tries (>= 1)
  MaxRedir,      \* --max-redirect
  RobotsOn,      \* robots.txt checking
  MaxLinks,      \* bound on the number of links of a site
  Kinds,         \* server behaviours allowed for URLs other than the start URL
  Foreign,       \* TRUE: URLs other than the start URL may live on a second host (span-hosts is off)
  AllowCrash,    \* TRUE: the process may die once, then the same command is run again
  ChildrenFirst  \* TRUE: children are stored before the status (repaired order); FALSE: status first (original)

URLs  == 1..NU
Hosts == 1..2
Start == 1

VARIABLES
  \* ---- the site (constant after Init)
  links,        \* set of <<src, dst>>
  kind,         \* kind[u] in {"page", "redirect", "notfound", "error", "drop"}
  rto,          \* redirect target
  host,         \* host[u] in Hosts
  dis,          \* dis[u]: robots.txt of its host disallows u
  rkind,        \* rkind[h] in {"rules", "missing", "error"}: what /robots.txt of host h answers
  \* ---- persistent state (the SQLite table)
  st, lvl, try, rid, nid,
  \* ---- volatile state of the running process
  phase,        \* "boot" | "run" | "exited"
  held,         \* URLs checked out by the producer, not yet taken by a worker (<= 2: producer hand + queue)
  w,            \* w[i] = [ph, u, cur, hops, batch]
  pool,         \* origins whose robots.txt has been obtained
  \* ---- observation
  run, visits, ivis, vcount, badRobots, badScope, doneAtCrash, rowsAtCrash, crashed

site  == <<links, kind, rto, host, dis, rkind>>
table == <<st, lvl, try, rid, nid>>
vol   == <<phase, held, w, pool>>
obs   == <<run, visits, ivis, vcount, badRobots, badScope, doneAtCrash, rowsAtCrash, crashed>>
vars  == <<site, table, vol, obs>>

Idle == [ph |-> "idle", u |-> 0, cur |-> 0, hops |-> 0, batch |-> {}, res |-> "none"]

-----------------------------------------------------------------------------
Init ==
  /\ links \in {L \in SUBSET (URLs \X URLs) : Cardinality(L) <= MaxLinks}
  /\ kind \in [URLs -> Kinds \cup {"page"}] /\ kind[Start] = "page"
  /\ rto \in [URLs -> URLs] /\ \A u \in URLs : (kind[u] # "redirect" => rto[u] = u)
  /\ host \in [URLs -> Hosts] /\ host[Start] = 1 /\ (~Foreign => \A u \in URLs : host[u] = 1)
  /\ dis \in [URLs -> BOOLEAN] /\ ~dis[Start] /\ (~RobotsOn => \A u \in URLs : ~dis[u])
  /\ rkind \in [Hosts -> IF RobotsOn THEN {"rules", "missing", "error"} ELSE {"missing"}]
  /\ (\A u \in URLs : dis[u] => rkind[host[u]] = "rules")
  /\ st = [u \in URLs |-> "none"] /\ lvl = [u \in URLs |-> 0] /\ try = [u \in URLs |-> 0]
  /\ rid = [u \in URLs |-> 0] /\ nid = 1
  /\ phase = "boot" /\ held = <<>> /\ w = [i \in 1..N |-> Idle] /\ pool = {}
  /\ run = 1 /\ visits = [r \in 1..2 |-> [u \in URLs |-> 0]] /\ ivis = [r \in 1..2 |-> [u \in URLs |-> 0]] /\ vcount = [i \in 1..N |-> 0]
  /\ badRobots = FALSE /\ badScope = FALSE /\ doneAtCrash = {} /\ rowsAtCrash = {} /\ crashed = FALSE

-----------------------------------------------------------------------------
(* Filters as the code applies them at a visit of item u (record = row of u) *)
LevelOK(l)  == Level = 0 \/ l <= Level
Verdict(u)  == host[u] = host[Start] /\ LevelOK(lvl[u]) /\ try[u] < Tries
\* a redirect hop to t during the visit of item u: every filter on t with u's record; strong redirects waive the host rule
HopVerdict(u, t) == LevelOK(lvl[u]) /\ try[u] < Tries
Blocked(x)  == RobotsOn /\ rkind[host[x]] = "rules" /\ dis[x]

\* lowest insertion id with the given status
LowestWith(s) == CHOOSE u \in URLs : st[u] = s /\ \A v \in URLs : st[v] = s => rid[u] <= rid[v]

\* INSERT OR IGNORE of a set of <<url, level>>, in some order
AddRows(S) ==
  LET new == {x \in S : st[x[1]] = "none"}
      us  == {x[1] : x \in new} IN
  \E ord \in [us -> 0..(Cardinality(us) - 1)] :
     /\ \A a, b \in us : a # b => ord[a] # ord[b]
     /\ st'  = [u \in URLs |-> IF u \in us THEN "todo" ELSE st[u]]
     /\ lvl' = [u \in URLs |-> IF u \in us THEN (CHOOSE x \in new : x[1] = u)[2] ELSE lvl[u]]
     /\ rid' = [u \in URLs |-> IF u \in us THEN nid + ord[u] ELSE rid[u]]
     /\ nid' = nid + Cardinality(us)

-----------------------------------------------------------------------------
(* Start-up: DatabaseSetupTask.release(), InputURLTask.add_many(start)       *)
Boot ==
  /\ phase = "boot"
  /\ LET rel == [u \in URLs |-> IF st[u] = "in_progress" THEN "todo" ELSE st[u]] IN
       IF rel[Start] = "none"
       THEN /\ st' = [rel EXCEPT ![Start] = "todo"] /\ rid' = [rid EXCEPT ![Start] = nid] /\ nid' = nid + 1
            /\ UNCHANGED <<lvl, try>>
       ELSE /\ st' = rel /\ UNCHANGED <<lvl, try, rid, nid>>
  /\ phase' = "run"
  /\ UNCHANGED <<site, held, w, pool, obs>>

(* Producer: URLItemSource.get_item = check_out(todo), else check_out(error) *)
CheckOut ==
  /\ phase = "run" /\ Len(held) < 2
  /\ \E s \in {"todo", "error"} :
       /\ \E u \in URLs : st[u] = s
       /\ s = "error" => ~\E u \in URLs : st[u] = "todo"
       /\ LET u == LowestWith(s) IN
            /\ st' = [st EXCEPT ![u] = "in_progress"]
            /\ held' = Append(held, u)
  /\ UNCHANGED <<site, lvl, try, rid, nid, phase, w, pool, obs>>

(* Worker takes the next item; WebProcessorSession.process begins           *)
Take(i) ==
  /\ phase = "run" /\ w[i].ph = "idle" /\ held # <<>>
  /\ w' = [w EXCEPT ![i] = [ph |-> "filter", u |-> Head(held), cur |-> Head(held), hops |-> 0, batch |-> {}, res |-> "none"]]
  /\ held' = Tail(held)
  /\ vcount' = [vcount EXCEPT ![i] = 0]
  /\ UNCHANGED <<site, table, phase, pool, run, visits, ivis, badRobots, badScope, doneAtCrash, rowsAtCrash, crashed>>

CheckIn(u, s) == /\ st' = [st EXCEPT ![u] = s] /\ try' = [try EXCEPT ![u] = IF @ < Tries + 1 THEN @ + 1 ELSE @]
                 /\ UNCHANGED <<lvl, rid, nid>>

\* end of a visit with status s: (children, status) or (status, children) as two transactions
Conclude(i, s, batch) ==
  w' = [w EXCEPT ![i].ph = IF ChildrenFirst THEN "children" ELSE "status", ![i].batch = batch, ![i].cur = 0,
                 ![i].res = s]
StatusOf(i) == w[i].res

(* check_initial_web_request: filters, then robots.txt (pool hit or fetch)  *)
Filter(i) ==
  /\ w[i].ph = "filter"
  /\ LET u == w[i].u IN
       IF ~Verdict(u) THEN Conclude(i, "skipped", {}) /\ UNCHANGED pool
       ELSE IF ~RobotsOn \/ host[u] \in pool
            THEN (IF Blocked(u) THEN Conclude(i, "skipped", {}) ELSE w' = [w EXCEPT ![i].ph = "send"]) /\ UNCHANGED pool
            ELSE \* fetch /robots.txt of the origin (a request of its own kind)
                 IF rkind[host[u]] = "error" THEN Conclude(i, "error", {}) /\ UNCHANGED pool
                 ELSE /\ pool' = pool \cup {host[u]}
                      /\ IF Blocked(u) THEN Conclude(i, "skipped", {}) ELSE w' = [w EXCEPT ![i].ph = "send"]
  /\ UNCHANGED <<site, table, phase, held, obs>>

(* the request goes on the wire                                             *)
Send(i) ==
  /\ w[i].ph = "send"
  /\ LET x == w[i].cur IN
       /\ visits' = [visits EXCEPT ![run][x] = IF @ < 3 THEN @ + 1 ELSE @]
       /\ vcount' = [vcount EXCEPT ![i] = @ + 1]
       /\ ivis' = IF w[i].hops = 0 /\ vcount[i] = 0 THEN [ivis EXCEPT ![run][x] = IF @ < 3 THEN @ + 1 ELSE @] ELSE ivis
       /\ badRobots' = (badRobots \/ (RobotsOn /\ (host[x] \notin pool \/ Blocked(x))))
       /\ badScope' = (badScope \/ (host[x] # host[Start] /\ x = w[i].u))
  /\ w' = [w EXCEPT ![i].ph = "wait"]
  /\ UNCHANGED <<site, table, phase, held, pool, run, doneAtCrash, rowsAtCrash, crashed>>

(* the server answers                                                       *)
Respond(i) ==
  /\ w[i].ph = "wait"
  /\ LET u == w[i].u
         x == w[i].cur IN
     CASE kind[x] = "page" ->
            \* rule.py _process_scrape_info: a link is recorded only if the URL filters accept ITS url (host rule) with
            \* the record it would get (level rule)
            /\ Conclude(i, "done", IF LevelOK(lvl[u] + 1)
                                    THEN { <<k[2], lvl[u] + 1>> : k \in {e \in links : e[1] = x /\ host[e[2]] = host[Start]} }
                                    ELSE {})
            /\ UNCHANGED pool
       [] kind[x] = "redirect" ->
            IF w[i].hops + 1 > MaxRedir THEN Conclude(i, "error", {}) /\ UNCHANGED pool
            ELSE LET t == rto[x] IN
                 IF ~HopVerdict(u, t) THEN Conclude(i, "skipped", {}) /\ UNCHANGED pool
                 ELSE IF ~RobotsOn \/ host[t] \in pool
                      THEN (IF Blocked(t) THEN Conclude(i, "skipped", {})
                            ELSE w' = [w EXCEPT ![i].ph = "send", ![i].cur = t, ![i].hops = @ + 1]) /\ UNCHANGED pool
                      ELSE IF rkind[host[t]] = "error" THEN Conclude(i, "error", {}) /\ UNCHANGED pool
                           ELSE /\ pool' = pool \cup {host[t]}
                                /\ IF Blocked(t) THEN Conclude(i, "skipped", {})
                                   ELSE w' = [w EXCEPT ![i].ph = "send", ![i].cur = t, ![i].hops = @ + 1]
       [] kind[x] = "notfound" -> Conclude(i, "skipped", {}) /\ UNCHANGED pool
       [] OTHER -> Conclude(i, "error", {}) /\ UNCHANGED pool
  /\ UNCHANGED <<site, table, phase, held, obs>>

(* the two transactions that end a visit                                    *)
TxChildren(i) ==
  /\ w[i].ph = "children"
  /\ AddRows(w[i].batch) /\ UNCHANGED try
  /\ w' = [w EXCEPT ![i] = IF ChildrenFirst THEN [@ EXCEPT !.ph = "status", !.batch = {}] ELSE Idle]
  /\ UNCHANGED <<site, phase, held, pool, obs>>

TxStatus(i) ==
  /\ w[i].ph = "status"
  /\ CheckIn(w[i].u, StatusOf(i))
  /\ w' = [w EXCEPT ![i] = IF ChildrenFirst THEN Idle ELSE [@ EXCEPT !.ph = "children"]]
  /\ UNCHANGED <<site, phase, held, pool, obs>>

(* source exhausted and nothing in flight: the pipeline stops, the application exits *)
Exit ==
  /\ phase = "run" /\ held = <<>> /\ \A i \in 1..N : w[i].ph = "idle"
  /\ ~\E u \in URLs : st[u] \in {"todo", "error"}
  /\ phase' = "exited"
  /\ UNCHANGED <<site, table, held, w, pool, obs>>

(* the process dies (once); the same command is started again               *)
Crash ==
  /\ AllowCrash /\ ~crashed
  /\ crashed' = TRUE /\ run' = 2
  /\ doneAtCrash' = {u \in URLs : st[u] = "done"} /\ rowsAtCrash' = {u \in URLs : st[u] # "none"}
  /\ phase' = "boot" /\ held' = <<>> /\ w' = [i \in 1..N |-> Idle] /\ pool' = {}
  /\ vcount' = [i \in 1..N |-> 0]
  /\ UNCHANGED <<site, table, visits, ivis, badRobots, badScope>>

Next ==
  \/ Boot \/ CheckOut \/ Exit \/ Crash
  \/ \E i \in 1..N : Take(i) \/ Filter(i) \/ Send(i) \/ Respond(i) \/ TxChildren(i) \/ TxStatus(i)

Sys == Boot \/ CheckOut \/ Exit \/ (\E i \in 1..N : Take(i) \/ Filter(i) \/ Send(i) \/ Respond(i) \/ TxChildren(i) \/ TxStatus(i))
Spec == Init /\ [][Next]_vars /\ WF_vars(Sys)

-----------------------------------------------------------------------------
(* Reference: what an uninterrupted crawl of the site must request          *)
Benign == /\ \A u \in URLs : kind[u] \in {"page", "redirect"} /\ (kind[u] = "redirect" => kind[rto[u]] = "page" /\ MaxRedir >= 1)
          /\ \A h \in Hosts : rkind[h] # "error"

\* visit of u (depth d) yields the links of its final page
FinalOf(u) == IF kind[u] = "page" THEN u ELSE IF kind[u] = "redirect" /\ MaxRedir >= 1 /\ kind[rto[u]] = "page"
                                               /\ ~Blocked(rto[u]) THEN rto[u] ELSE 0
ChildrenOf(u) == IF FinalOf(u) = 0 THEN {} ELSE {k[2] : k \in {e \in links : e[1] = FinalOf(u)}}
InScope(c, d) == host[c] = host[Start] /\ LevelOK(d) /\ ~Blocked(c)

RECURSIVE Layers(_, _, _)
\* set of <<u, shortest in-scope depth>>
Layers(front, seen, d) ==
  IF front = {} \/ d > NU THEN seen
  ELSE LET seen2 == seen \cup {<<u, d>> : u \in front}
           have  == {x[1] : x \in seen2}
           nxt == {c \in UNION {ChildrenOf(u) : u \in front} : c \notin have /\ InScope(c, d + 1)}
       IN Layers(nxt, seen2, d + 1)
ReachP == Layers({Start}, {}, 0)
Reach  == {x[1] : x \in ReachP}
Depth(u) == (CHOOSE x \in ReachP : x[1] = u)[2]
Expected(y) == Cardinality({u \in Reach : y = u \/ (kind[u] = "redirect" /\ FinalOf(u) = y)})

Total(u) == visits[1][u] + visits[2][u]
Ended == phase = "exited"
\* named deviation (known finding C01 level-race): some row was recorded deeper than its shortest depth
LevelRace == Level > 0 /\ N > 1 /\ \E u \in Reach : st[u] # "none" /\ lvl[u] > Depth(u)

C01_Once     == (Benign /\ ~crashed) => \A u \in URLs : visits[1][u] <= Expected(u)
C01_Complete == (Ended /\ Benign /\ ~crashed) => ((\A u \in URLs : visits[1][u] = Expected(u)) \/ LevelRace)
C01_Final    == Ended => \A u \in URLs : st[u] \in {"none", "done", "skipped"}
C03_NoRefetch == \A u \in doneAtCrash : ivis[2][u] = 0
C03_NoStuck  == Ended => \A u \in URLs : st[u] # "in_progress"
C03_NoLoss   == (Ended /\ crashed /\ Benign) =>
                  /\ \A u \in rowsAtCrash : st[u] # "none"
                  /\ ((\A u \in URLs : Expected(u) > 0 => Total(u) > 0) \/ LevelRace)
C18_Visit    == \A i \in 1..N : vcount[i] <= MaxRedir + 1
C18_Tries    == \A u \in URLs : try[u] <= Tries + 1
C20_Robots   == ~badRobots
C02_Scope    == ~badScope
NoHang       == (~ENABLED Sys) => Ended
Terminates   == <>Ended
TypeOK == /\ \A u \in URLs : st[u] \in {"none", "todo", "in_progress", "done", "error", "skipped"}
          /\ phase \in {"boot", "run", "exited"} /\ Len(held) <= 2
=============================================================================
