---------------------------- MODULE URLTableProps ----------------------------
(***************************************************************************)
(* C14 stated over observation variables only: the projection of the URL   *)
(* table before (ptab) and after (tab) the last public call, the call with *)
(* its arguments and its result (ev), the host-name list before/after, and *)
(* two ghost folds of the call history (gvis, gfiled).                     *)
(* Shared by the reference model (URLTable.tla), the strict trace spec     *)
(* (URLTableTrace.tla) and the observation monitor (URLTableMon.tla).      *)
(*                                                                         *)
(* Encoding (the driver keeps the dictionary):                             *)
(*   strings -> tokens: 0 = None, 1 = '' (empty string), >= 2 other        *)
(*   nullable ints: -1 = None;   status / link type: strings, "none"       *)
(*   update_one arguments: -2 / "absent" = keyword not passed              *)
(*   row = [u, st, try, lv, il, par, root, lt, pr, post, code, fn]         *)
(*   result = [k, rows, n, urls], k in ok | notfound | valueerror | crash  *)
(***************************************************************************)
EXTENDS Integers, FiniteSets, Sequences, TLC

NoneS  == 0
EmptyS == 1
NoneI  == -1
Absent == -2

VARIABLES
  ptab,    \* URL -> row : table projection before the last call
  tab,     \* URL -> row : table projection after the last call
  ev,      \* the last call: [op, <arguments>, res]
  phs, hs, \* set of host names before / after the last call
  host,    \* token -> -1 (not parseable as a URL) | 0 (no host name) | host-name token; never changes
  gvis,    \* ghost: every <<url, warc_id, digest>> ever passed to add_visits
  gfiled   \* ghost: stored URLs that were checked in as done with a file name (and not removed since)

Range(s) == {s[i] : i \in DOMAIN s}
Dp == DOMAIN ptab
Dt == DOMAIN tab
Is(o) == ev.op = o
Ok == ev.res.k = "ok"

Core(r) == <<r.st, r.try, r.lv>>
SansSt(r) == [r EXCEPT !.st = "x"]

Mutators == {"add_many", "check_out", "check_in", "update_one", "release", "remove_many"}

-----------------------------------------------------------------------------
(* add *)
BatchURLs == {ev.batch[i].u : i \in DOMAIN ev.batch}

\* adding a stored URL again changes neither status, try count nor depth
ReAddIsNoop ==
  Is("add_many") => \A u \in Dp : u \in Dt /\ Core(tab[u]) = Core(ptab[u])

\* the URLs reported as added are exactly the batch URLs that were not stored (each once),
\* and afterwards every batch URL is stored
AddManyReportsExactlyNew ==
  (Is("add_many") /\ Ok) =>
     /\ Range(ev.res.urls) = BatchURLs \ Dp
     /\ Len(ev.res.urls) = Cardinality(Range(ev.res.urls))
     /\ Dt = Dp \cup BatchURLs

\* lenient on batches with internal duplicates: the stored row agrees with SOME occurrence
Matches(r, e) ==
  /\ r.st  = (IF e.st = "none" THEN "todo" ELSE e.st)
  /\ r.try = (IF e.try = NoneI THEN 0 ELSE e.try)
  /\ r.lv  = (IF e.lv = NoneI THEN 0 ELSE e.lv)
  /\ (e.il # NoneI => r.il = e.il)
  /\ (e.lt # "none" => r.lt = e.lt)
  /\ (e.pr # NoneI => r.pr = e.pr)
  /\ (e.post # NoneS => r.post = e.post)
  /\ ((e.hp /\ e.par \notin {NoneS, EmptyS}) => r.par = e.par)
  /\ ((e.hp /\ e.root \notin {NoneS, EmptyS}) => r.root = e.root)
  /\ r.code = NoneI /\ r.fn = NoneS

NewRowAsGiven ==
  (Is("add_many") /\ Ok) =>
     \* a URL repeated inside the batch: the later occurrences are "adding it again" and change nothing,
     \* so the stored row is the one given by its FIRST occurrence
     \A u \in Dt \ Dp : \E i \in DOMAIN ev.batch :
        /\ ev.batch[i].u = u /\ (\A j \in DOMAIN ev.batch : j < i => ev.batch[j].u # u)
        /\ Matches(tab[u], ev.batch[i])

-----------------------------------------------------------------------------
(* delete *)
OnlyRemoveDeletes ==
  /\ (~Is("remove_many") => Dp \subseteq Dt)
  /\ (~Is("add_many") => Dt \subseteq Dp)

RemoveExact ==
  (Is("remove_many") /\ Ok) =>
     /\ Dt = Dp \ Range(ev.urls)
     /\ \A u \in Dt : tab[u] = ptab[u]

OnlyMutatorsMutate == (ev.op \notin Mutators) => tab = ptab

-----------------------------------------------------------------------------
(* status state machine, try count, depth *)
StatusMachine ==
  \A u \in Dp \cap Dt :
     tab[u].st # ptab[u].st =>
        \/ Is("check_out") /\ Ok /\ Len(ev.res.rows) = 1 /\ ev.res.rows[1].u = u
             /\ ptab[u].st = ev.st /\ tab[u].st = "in_progress"
        \/ Is("check_in") /\ ev.u = u /\ tab[u].st = ev.st
        \/ Is("update_one") /\ ev.u = u /\ ev.kv.st # "absent" /\ tab[u].st = ev.kv.st
        \/ Is("release") /\ ptab[u].st = "in_progress" /\ tab[u].st = "todo"

TryMonotone ==
  \A u \in Dp \cap Dt :
     tab[u].try # ptab[u].try =>
        \/ Is("check_in") /\ ev.u = u /\ ev.inc /\ tab[u].try = ptab[u].try + 1
        \/ Is("update_one") /\ ev.u = u /\ ev.kv.try # Absent /\ tab[u].try = ev.kv.try

DepthStable ==
  \A u \in Dp \cap Dt :
     tab[u].lv # ptab[u].lv => Is("update_one") /\ ev.u = u /\ ev.kv.lv # Absent /\ tab[u].lv = ev.kv.lv

-----------------------------------------------------------------------------
(* check-out *)
Eligible == {u \in Dp : ptab[u].st = ev.st /\ (ev.lv = NoneI \/ ptab[u].lv < ev.lv)}

CheckOutNotFoundIff ==
  Is("check_out") => ((ev.res.k = "notfound") <=> (Eligible = {}))

\* SOME eligible row is returned (which one is the model's business: strict spec) and only it is marked
CheckOutMarks ==
  (Is("check_out") /\ Ok) =>
     /\ Len(ev.res.rows) = 1
     /\ LET r == ev.res.rows[1] IN
          /\ r.u \in Eligible
          /\ tab = [ptab EXCEPT ![r.u] = [@ EXCEPT !.st = "in_progress"]]
          /\ SansSt(r) = SansSt(ptab[r.u])
          /\ r.st \in {"in_progress", ev.st}

-----------------------------------------------------------------------------
(* check-in, update, release *)
CheckInStatusTry ==
  (Is("check_in") /\ Ok /\ ev.u \in Dp) =>
     /\ ev.u \in Dt
     /\ tab[ev.u].st = ev.st
     /\ tab[ev.u].try = ptab[ev.u].try + (IF ev.inc THEN 1 ELSE 0)

CheckInResult ==
  (Is("check_in") /\ Ok /\ ev.u \in Dp /\ ev.u \in Dt) =>
     /\ tab[ev.u].code = (IF ev.hr /\ ev.code # NoneI THEN ev.code ELSE ptab[ev.u].code)
     /\ tab[ev.u].fn = (IF ev.hr /\ ev.fn # NoneS THEN ev.fn ELSE ptab[ev.u].fn)

CheckInOthersSame ==
  (Is("check_in") /\ Ok) =>
     IF ev.u \in Dp
     THEN /\ Dt = Dp
          /\ \A u \in Dp \ {ev.u} : tab[u] = ptab[u]
          /\ [tab[ev.u] EXCEPT !.st = "x", !.try = 0, !.code = 0, !.fn = 0]
               = [ptab[ev.u] EXCEPT !.st = "x", !.try = 0, !.code = 0, !.fn = 0]
     ELSE tab = ptab

Upd(r, kv) ==
  [r EXCEPT !.st   = IF kv.st = "absent" THEN @ ELSE kv.st,
            !.try  = IF kv.try = Absent THEN @ ELSE kv.try,
            !.lv   = IF kv.lv = Absent THEN @ ELSE kv.lv,
            !.il   = IF kv.il = Absent THEN @ ELSE kv.il,
            !.lt   = IF kv.lt = "absent" THEN @ ELSE kv.lt,
            !.pr   = IF kv.pr = Absent THEN @ ELSE kv.pr,
            !.post = IF kv.post = Absent THEN @ ELSE kv.post,
            !.code = IF kv.code = Absent THEN @ ELSE kv.code,
            !.fn   = IF kv.fn = Absent THEN @ ELSE kv.fn]

UpdateExact ==
  (Is("update_one") /\ Ok) =>
     IF ev.u \in Dp THEN tab = [ptab EXCEPT ![ev.u] = Upd(@, ev.kv)] ELSE tab = ptab

ReleaseExact ==
  (Is("release") /\ Ok) =>
     tab = [u \in Dp |-> IF ptab[u].st = "in_progress" THEN [ptab[u] EXCEPT !.st = "todo"] ELSE ptab[u]]

-----------------------------------------------------------------------------
(* reopen, reads, failures *)
ReopenIdentity == Is("reopen") => (Ok /\ tab = ptab /\ hs = phs)

ReadAgree ==
  /\ (Is("count") /\ Ok) => ev.res.n = Cardinality(Dp)
  /\ Is("get_one") => /\ (ev.res.k = "notfound") <=> (ev.u \notin Dp)
                      /\ Ok => (ev.u \in Dp /\ ev.res.rows = <<ptab[ev.u]>>)
  /\ (Is("contains") /\ Ok) => ((ev.res.n = 1) <=> (ev.u \in Dp))
  /\ (Is("get_all") /\ Ok) => /\ Len(ev.res.rows) = Cardinality(Dp)
                              /\ Range(ev.res.rows) = {ptab[u] : u \in Dp}
  /\ (Is("get_hostnames") /\ Ok) => Range(ev.res.urls) = phs
  /\ (Is("root_todo") /\ Ok) => ev.res.n = Cardinality({u \in Dp : ptab[u].st = "todo" /\ ptab[u].lv = 0})

\* which outcomes a call may have: "not found" where the interface documents it; add_many may reject
\* (atomically, see FailureAtomic) a batch containing a string that is not parseable as a URL
\* (lenient reading of "arbitrary URL strings"); nothing else may raise
NoCrash ==
  CASE Is("add_many") ->
         \/ Ok
         \/ ev.res.k = "valueerror" /\ \E i \in DOMAIN ev.batch : host[ev.batch[i].u] = -1
    [] ev.op \in {"check_out", "get_one", "convert_check_out"} -> ev.res.k \in {"ok", "notfound"}
    [] OTHER -> Ok

FailureAtomic == (~Ok) => (tab = ptab /\ hs = phs)

-----------------------------------------------------------------------------
(* visits (cdx dedup) and the file queue: beyond the literal statement, kept lenient *)
VisitSound ==
  (Is("get_revisit_id") /\ Ok /\ ev.res.n # NoneS) => <<ev.u, ev.res.n, ev.dg>> \in gvis

VisitComplete ==
  (Is("get_revisit_id") /\ Ok) =>
     LET mine == {v \in gvis : v[1] = ev.u} IN
       (Cardinality(mine) = 1 /\ \E v \in mine : v[3] = ev.dg) => \E v \in mine : ev.res.n = v[2]

\* a file handed out for conversion belongs to a URL that was checked in as done with a file name
ConvertSound ==
  (Is("convert_check_out") /\ Ok) => (Len(ev.res.rows) = 1 /\ ev.res.rows[1].u \in gfiled)

-----------------------------------------------------------------------------
(* ghost folds (same definition for the model and for the monitor):       *)
(* g = ghost before the call e, dom = URLs stored before the call         *)
GvisFold(g, e) ==
  IF e.op = "add_visits" /\ e.res.k = "ok"
  THEN g \cup {<<e.vs[i][1], e.vs[i][2], e.vs[i][3]>> : i \in DOMAIN e.vs}
  ELSE g
GfiledFold(g, e, dom) ==
  IF e.op = "check_in" /\ e.res.k = "ok" /\ e.st = "done" /\ e.hr /\ e.fn \notin {NoneS, EmptyS} /\ e.u \in dom
  THEN g \cup {e.u}
  ELSE IF e.op = "remove_many" /\ e.res.k = "ok" THEN g \ Range(e.urls) ELSE g

Res(k, rows, num, urls) == [k |-> k, rows |-> rows, n |-> num, urls |-> urls]
OkRes  == Res("ok", <<>>, 0, <<>>)
InitEv == [op |-> "init", res |-> OkRes]

\* clause numbering used by the verdict registers
ClauseBad(c) ==
  CASE c = 1 -> IF ReAddIsNoop THEN 0 ELSE c
    [] c = 2 -> IF AddManyReportsExactlyNew THEN 0 ELSE c
    [] c = 3 -> IF NewRowAsGiven THEN 0 ELSE c
    [] c = 4 -> IF OnlyRemoveDeletes THEN 0 ELSE c
    [] c = 5 -> IF RemoveExact THEN 0 ELSE c
    [] c = 6 -> IF OnlyMutatorsMutate THEN 0 ELSE c
    [] c = 7 -> IF StatusMachine THEN 0 ELSE c
    [] c = 8 -> IF TryMonotone THEN 0 ELSE c
    [] c = 9 -> IF DepthStable THEN 0 ELSE c
    [] c = 10 -> IF CheckOutNotFoundIff THEN 0 ELSE c
    [] c = 11 -> IF CheckOutMarks THEN 0 ELSE c
    [] c = 12 -> IF CheckInStatusTry THEN 0 ELSE c
    [] c = 13 -> IF CheckInResult THEN 0 ELSE c
    [] c = 14 -> IF CheckInOthersSame THEN 0 ELSE c
    [] c = 15 -> IF UpdateExact THEN 0 ELSE c
    [] c = 16 -> IF ReleaseExact THEN 0 ELSE c
    [] c = 17 -> IF ReopenIdentity THEN 0 ELSE c
    [] c = 18 -> IF ReadAgree THEN 0 ELSE c
    [] c = 19 -> IF NoCrash THEN 0 ELSE c
    [] c = 20 -> IF FailureAtomic THEN 0 ELSE c
    [] c = 21 -> IF VisitSound THEN 0 ELSE c
    [] c = 22 -> IF VisitComplete THEN 0 ELSE c
    [] c = 23 -> IF ConvertSound THEN 0 ELSE c
    [] OTHER -> 0

BadClause == IF \E c \in 1..23 : ClauseBad(c) # 0 THEN CHOOSE c \in 1..23 : ClauseBad(c) # 0 /\ \A b \in 1..(c - 1) : ClauseBad(b) = 0
             ELSE 0
=============================================================================
