------------------------------ MODULE HttpWire ------------------------------
(***************************************************************************)
(* Implementation-shaped model of wpull's HTTP/1.1 response reader         *)
(*   wpull/protocol/http/client.py   Session.start / download              *)
(*   wpull/protocol/http/stream.py   Stream.read_response / read_body /    *)
(*                                   _read_body_by_length/_by_chunk/_until_close, is_no_body,      *)
(*                                   get_read_strategy                     *)
(*   wpull/protocol/http/chunked.py  ChunkedTransferReader                 *)
(*   wpull/protocol/http/util.py     should_close                          *)
(*   wpull/namevalue.py              field parsing (first value wins, obs-fold joined)             *)
(*   wpull/warc/recorder.py          HTTPWARCRecorderSession (one record at end_request /          *)
(*                                   end_response, block = the notified data)                      *)
(* reading from a connection = `rest` (octets sent and not yet consumed) + *)
(* `eof`.  ReadLine returns through the first LF (or to EOF); Read(n)      *)
(* returns ANY k octets with 1 <= k <= min(n, |rest|): this k is "all      *)
(* segmentations of the byte stream".  One action = one read + what the    *)
(* code does with the data up to the next read, including the              *)
(* data_event_dispatcher notification (-> recorded) and file.write         *)
(* (-> delivered).  NX exchanges in lockstep: the server sends message x   *)
(* when request x has been written.                                        *)
(*                                                                         *)
(* Alphabet: real octet values for everything after the header block       *)
(* (CR 13, LF 10, hex digits, ';' 59, ':' 58, body octets); a header line  *)
(* is ONE token >= 1000 (Tok(kind, val, style)) followed by its real line  *)
(* ending, so header spelling variants are distinct tokens.                *)
(*                                                                         *)
(* The model describes the code AS IT IS; the four Fix* constants switch   *)
(* to the repaired behaviour of a finding (DESIGN section 6: 9, 10, 23,    *)
(* invalid Content-Length).                                                *)
(***************************************************************************)
EXTENDS HttpWireProps

CONSTANTS
  Methods, Statuses, Interims, TESet, CLSet, ConnSet, VerSet, FmtSet,   \* message space (sets, see MsgSet)
  BodyCodes, SplitSet, ExtSet, TrailerSet, TruncMode, SCloseSet,
  FixTE,        \* TRUE: transfer-coding matched case-insensitively on the final coding   (finding 9)
  FixNoBody,    \* TRUE: HEAD / 1xx / 204 / 304 never have a body read                  (finding 10)
  Fix1xx,       \* TRUE: interim 1xx responses are skipped                              (finding 23)
  FixBadCL      \* TRUE: invalid Content-Length is a protocol error

CR == 13
LF == 10

\* ---------------------------------------------------------------- header-line tokens
Tok(kind, val, style) == 1000 + kind * 1000 + val * 10 + style
IsTok(t)    == t >= 2000
TokKind(t)  == (t - 1000) \div 1000
TokVal(t)   == ((t - 1000) % 1000) \div 10
TokStyle(t) == (t - 1000) % 10
KStatus == 1   KTE == 2   KCL == 3   KConn == 4   KPad == 5
\* styles: 0 "Name: value"  1 "Name:value"  2 "Name:" (value on the next, folded, line)  3 " value" (continuation)

StatusIdx(s) == CASE s = 100 -> 1 [] s = 200 -> 2 [] s = 204 -> 3 [] s = 304 -> 4 [] OTHER -> 5
StatusOfIdx(i) == CASE i = 1 -> 100 [] i = 2 -> 200 [] i = 3 -> 204 [] i = 4 -> 304 [] OTHER -> 500
StatusVal(s, ver) == StatusIdx(s) * 2 + (IF ver = "1.0" THEN 1 ELSE 0)
TEVal(te) == CASE te = "chunked" -> 1 [] te = "Chunked" -> 2 [] te = "gzip, chunked" -> 3 [] OTHER -> 0
TECodings(te) == CASE te = "chunked" -> <<"chunked">> [] te = "Chunked" -> <<"chunked">>
                   [] te = "gzip, chunked" -> <<"gzip", "chunked">> [] OTHER -> <<>>
CLNonNum == 98
CLNeg == 99
ConnVal(c) == CASE c = "close" -> 1 [] c = "keep-alive" -> 2 [] OTHER -> 0

\* ---------------------------------------------------------------- the server: Bytes(msg)
Alphabet == <<97, 98, 99, 100, 101, 102>>
BodyOf(c) == IF c = 13 THEN <<97, LF, 98>> ELSE SubSeq(Alphabet, 1, c)     \* code 13: a body with an LF inside

EOL(fmt) == IF fmt = "lf" THEN <<LF>> ELSE <<CR, LF>>
FieldLines(kind, val, fmt, primary) ==
  CASE fmt = "nospace"           -> <<Tok(kind, val, 1)>> \o EOL(fmt)
    [] fmt = "folded" /\ primary -> <<Tok(kind, val, 2)>> \o EOL(fmt) \o <<Tok(kind, val, 3)>> \o EOL(fmt)
    [] fmt = "dup" /\ primary    -> <<Tok(kind, val, 0)>> \o EOL(fmt) \o <<Tok(kind, val, 0)>> \o EOL(fmt)
    [] OTHER                     -> <<Tok(kind, val, 0)>> \o EOL(fmt)

HexDigit(n) == IF n < 10 THEN 48 + n ELSE 87 + n
ChunkHdr(n, ext) == <<HexDigit(n)>> \o (IF ext THEN <<59, 120>> ELSE <<>>) \o <<CR, LF>>
Chunk(data, ext) == [hdr |-> ChunkHdr(Len(data), ext), data |-> data, end |-> <<CR, LF>>]
ChunksOf(body, split, ext) ==
  IF body = <<>> THEN <<>>
  ELSE IF split = 2 /\ Len(body) >= 2
       THEN <<Chunk(SubSeq(body, 1, 1), ext), Chunk(SubSeq(body, 2, Len(body)), ext)>>
       ELSE <<Chunk(body, ext)>>

\* b: the choice record (method, status, interim, ver, te, cl, conn, fmt, body, split, ext, tr)
CLValOf(b) ==
  LET n == Len(BodyOf(b.body)) IN
  CASE b.cl = "exact" -> n [] b.cl = "larger" -> n + 2 [] b.cl = "smaller" -> n - 1
    [] b.cl = "nonnum" -> CLNonNum [] b.cl = "neg" -> CLNeg [] OTHER -> 0

HeadOf(b) ==
  LET foldTE == b.te # "none"
      foldCL == ~foldTE /\ b.cl # "none"
      dupCL  == b.cl # "none"
      prim(k) == IF b.fmt = "folded" THEN (k = KTE /\ foldTE) \/ (k = KCL /\ foldCL) \/ (k = KPad /\ ~foldTE /\ ~foldCL)
                 ELSE IF b.fmt = "dup" THEN (k = KCL /\ dupCL) \/ (k = KPad /\ ~dupCL)
                 ELSE FALSE
  IN <<Tok(KStatus, StatusVal(b.status, b.ver), 0)>> \o EOL(b.fmt)
     \o (IF b.te # "none" THEN FieldLines(KTE, TEVal(b.te), b.fmt, prim(KTE)) ELSE <<>>)
     \o (IF b.cl # "none" THEN FieldLines(KCL, CLValOf(b), b.fmt, prim(KCL)) ELSE <<>>)
     \o (IF b.conn # "none" THEN FieldLines(KConn, ConnVal(b.conn), b.fmt, FALSE) ELSE <<>>)
     \o FieldLines(KPad, 1, b.fmt, prim(KPad))
     \o EOL(b.fmt)

IHeadOf(b) == IF b.interim = 1
              THEN <<Tok(KStatus, StatusVal(100, "1.1"), 0)>> \o EOL(b.fmt) \o EOL(b.fmt)
              ELSE <<>>

\* an RFC-conformant sender: no body after HEAD / 204 / 304; chunked format iff chunked is the final coding
SenderBodyless(b) == b.method = "HEAD" \/ b.status = 204 \/ b.status = 304

Mk(b, trunc, sclose) ==
  LET body == BodyOf(b.body)
      chk  == b.te # "none" /\ ~SenderBodyless(b) IN
  [method |-> b.method, status |-> b.status, te |-> TECodings(b.te),
   hascl |-> b.cl # "none", clok |-> b.cl \in {"exact", "larger", "smaller"}, clv |-> CLValOf(b),
   ihead |-> IHeadOf(b), head |-> HeadOf(b),
   chunked |-> chk,
   chunks |-> IF chk THEN ChunksOf(body, b.split, b.ext) ELSE <<>>,
   last |-> IF chk THEN <<48>> \o (IF b.ext THEN <<59, 120>> ELSE <<>>) \o <<CR, LF>> ELSE <<>>,
   trailer |-> IF chk THEN (IF b.tr THEN <<84, 58, 118, CR, LF, CR, LF>> ELSE <<CR, LF>>) ELSE <<>>,
   raw |-> IF chk \/ SenderBodyless(b) THEN <<>> ELSE body,
   trunc |-> trunc, sclose |-> sclose, coded |-> FALSE, content |-> <<>>]

Choices ==
  { b \in [method : Methods, status : Statuses, interim : Interims, ver : VerSet, te : TESet, cl : CLSet,
           conn : ConnSet, fmt : FmtSet, body : BodyCodes, split : SplitSet, ext : ExtSet, tr : TrailerSet] :
      /\ (b.cl = "smaller" => Len(BodyOf(b.body)) >= 1)
      /\ (b.te = "none" => (b.split = 1 /\ ~b.ext /\ ~b.tr))           \* chunk shape only matters when chunked
      /\ (b.split = 2 => Len(BodyOf(b.body)) >= 2)
      /\ (b.ver = "1.0" => b.te = "none") }

\* the sender must close to end a message that has neither chunked framing nor a (sufficient) length
MustClose(b) == ~SenderBodyless(b) /\ b.te = "none" /\ b.cl \in {"none", "larger", "nonnum", "neg"}

MsgSet ==
  UNION { LET full == Full(Mk(b, NoTrunc, FALSE)) IN
          { Mk(b, NoTrunc, sc) : sc \in (IF MustClose(b) THEN {TRUE} ELSE SCloseSet) }
          \cup (IF TruncMode = "all" THEN { Mk(b, t, TRUE) : t \in 0..(Len(full) - 1) } ELSE {})
        : b \in Choices }

ReqTok(x) == <<7000 + x>>

-----------------------------------------------------------------------------
VARIABLES
  x,        \* current exchange
  pc,       \* program counter of the client
  rest,     \* octets sent by the server on the current connection, not yet consumed
  eof,      \* the server has closed its side
  copen,    \* the client holds an open connection
  hdr,      \* first tokens of the header lines read so far
  bleft,    \* bytes_left (length / chunk)
  tr,       \* trailer data read so far
  err       \* error class being raised

impl == <<x, pc, rest, eof, copen, hdr, bleft, tr, err>>
vars == <<msgs, impl, obsvars, warcDone>>

LFIndex(s) == LET S == {i \in 1..Len(s) : s[i] = LF} IN
              IF S = {} THEN 0 ELSE CHOOSE i \in S : \A j \in S : i <= j

InitWith(ms) ==
  /\ msgs = ms
  /\ x = 1 /\ pc = "start" /\ rest = <<>> /\ eof = FALSE /\ copen = FALSE
  /\ hdr = <<>> /\ bleft = 0 /\ tr = <<>> /\ err = "none"
  /\ delivered = [i \in XS |-> <<>>] /\ recorded = [i \in XS |-> <<>>]
  /\ reqRecorded = [i \in XS |-> <<>>] /\ reqSent = [i \in XS |-> <<>>]
  /\ outcome = [i \in XS |-> "none"] /\ connClosed = [i \in XS |-> FALSE]
  /\ leftover = [i \in XS |-> 0] /\ stalled = [i \in XS |-> FALSE]
  /\ reqRecs = [i \in XS |-> 0] /\ respRecs = [i \in XS |-> 0]
  /\ reqBlock = [i \in XS |-> <<>>] /\ respBlock = [i \in XS |-> <<>>]
  /\ linked = [i \in XS |-> FALSE]
  /\ warcDone = TRUE

Init == \E ms \in [XS -> MsgSet] : InitWith(ms)

Notify(d)  == recorded' = [recorded EXCEPT ![x] = @ \o d]
Deliver(d) == delivered' = [delivered EXCEPT ![x] = @ \o d]
Raise(kind) == pc' = "raise" /\ err' = kind
UnchObs(S) == UNCHANGED S

\* ---- Session.start: (re)connect when needed, write the request; the server answers
\* Stream.reconnect(): connection.closed() = no reader/writer, or the reader is at EOF with an empty buffer
Start ==
  /\ pc = "start"
  /\ LET fresh == ~copen \/ (eof /\ rest = <<>>)
         m == msgs[x]
         answers == fresh \/ ~eof          \* a server that has closed does not answer
     IN /\ copen' = TRUE
        /\ rest' = (IF fresh THEN <<>> ELSE rest) \o (IF answers THEN Sent(m) ELSE <<>>)
        /\ eof' = IF answers THEN (m.trunc # NoTrunc \/ m.sclose) ELSE eof
  /\ reqRecorded' = [reqRecorded EXCEPT ![x] = ReqTok(x)]
  /\ reqSent' = [reqSent EXCEPT ![x] = ReqTok(x)]
  /\ reqRecs' = [reqRecs EXCEPT ![x] = @ + 1]
  /\ reqBlock' = [reqBlock EXCEPT ![x] = ReqTok(x)]
  /\ pc' = "hdr" /\ hdr' = <<>> /\ tr' = <<>> /\ bleft' = 0
  /\ UNCHANGED <<msgs, x, err, delivered, recorded, outcome, connClosed, leftover, stalled,
                 respRecs, respBlock, linked, warcDone>>

\* ---- a read blocks although the server has nothing more to send: the server's idle timeout closes
NeedsLine  == pc \in {"hdr", "ch_hdr", "ch_nl", "trailer"}
NeedsBytes == pc \in {"len", "ch_body", "close"} /\ ~(pc = "len" /\ bleft = 0)
Stall ==
  /\ ~eof
  /\ (NeedsLine /\ LFIndex(rest) = 0) \/ (NeedsBytes /\ rest = <<>>)
  /\ eof' = TRUE
  /\ stalled' = [stalled EXCEPT ![x] = TRUE]
  /\ UNCHANGED <<msgs, x, pc, rest, copen, hdr, bleft, tr, err, delivered, recorded, reqRecorded, reqSent,
                 outcome, connClosed, leftover, reqRecs, respRecs, reqBlock, respBlock, linked, warcDone>>

\* Connection.readline(): through the first LF, or everything up to EOF
LineReady == LFIndex(rest) > 0 \/ eof
TheLine == IF LFIndex(rest) > 0 THEN SubSeq(rest, 1, LFIndex(rest)) ELSE rest
AfterLine == IF LFIndex(rest) > 0 THEN SubSeq(rest, LFIndex(rest) + 1, Len(rest)) ELSE <<>>
EndsLF(l) == l # <<>> /\ l[Len(l)] = LF
White(c) == c \in {CR, LF, 32, 9}
Blank(l) == \A i \in 1..Len(l) : White(l[i])

\* ---- header fields as wpull sees them (NameValueRecord: first value wins; a folded line continues the
\*      previous one, so the value of a "Name:" + continuation pair is the continuation's)
FieldToks(k) == SelectSeq(hdr, LAMBDA t : IsTok(t) /\ TokKind(t) = k /\ TokStyle(t) \in {0, 1, 3})
HasField(k)  == FieldToks(k) # <<>>
FieldVal(k)  == IF HasField(k) THEN TokVal(FieldToks(k)[1]) ELSE 0
StatusSeen   == StatusOfIdx(TokVal(hdr[1]) \div 2)
NoContentCode(s) == s \in 100..199 \/ s = 204 \/ s = 304

\* stream.py is_no_body
IsNoBody(m) ==
  IF FixNoBody THEN NoContentCode(StatusSeen) \/ m.method = "HEAD"
  ELSE ~HasField(KCL) /\ ~HasField(KTE) /\ (NoContentCode(StatusSeen) \/ m.method = "HEAD")
\* stream.py get_read_strategy: re.match(r'chunked($|;)', first Transfer-Encoding value)
Strategy ==
  IF HasField(KTE) /\ (FieldVal(KTE) = 1 \/ (FixTE /\ FieldVal(KTE) \in {1, 2, 3})) THEN "chunked"
  ELSE IF HasField(KCL) THEN "length" ELSE "close"

\* ---- Stream.read_response: one header line
HdrLine ==
  /\ pc = "hdr" /\ LineReady
  /\ LET l == TheLine IN
     /\ rest' = AfterLine
     /\ Notify(l)
     /\ IF ~EndsLF(l) THEN Raise("network_error") /\ UNCHANGED hdr                   \* 'Connection closed.'
        ELSE IF l \in {<<CR, LF>>, <<LF>>}
        THEN IF hdr = <<>> THEN Raise("protocol_error") /\ UNCHANGED hdr             \* 'No header received.'
             ELSE IF ~(IsTok(hdr[1]) /\ TokKind(hdr[1]) = KStatus)
                  THEN Raise("protocol_error") /\ UNCHANGED hdr                        \* status line does not parse
                  ELSE IF Fix1xx /\ StatusSeen \in 100..199
                       THEN pc' = "hdr" /\ hdr' = <<>> /\ UNCHANGED err                \* skip the interim response
                       ELSE pc' = "body" /\ UNCHANGED <<hdr, err>>
        ELSE pc' = "hdr" /\ hdr' = Append(hdr, l[1]) /\ UNCHANGED err
  /\ UNCHANGED <<msgs, x, eof, copen, bleft, tr, delivered, reqRecorded, reqSent, outcome, connClosed, leftover,
                 stalled, reqRecs, respRecs, reqBlock, respBlock, linked, warcDone>>

\* ---- Stream.read_body: choose how to read
Body ==
  /\ pc = "body"
  /\ LET m == msgs[x] IN
     IF IsNoBody(m) THEN pc' = "finnb" /\ UNCHANGED <<bleft, err>>            \* returns before the keep-alive decision
     ELSE IF Strategy = "chunked" THEN pc' = "ch_hdr" /\ UNCHANGED <<bleft, err>>
     ELSE IF Strategy = "length"
          THEN IF FieldVal(KCL) \in {CLNonNum, CLNeg}
               THEN IF FixBadCL THEN Raise("protocol_error") /\ UNCHANGED bleft
                    ELSE pc' = "close" /\ UNCHANGED <<bleft, err>>               \* warning, then read until close
               ELSE pc' = "len" /\ bleft' = FieldVal(KCL) /\ UNCHANGED err
     ELSE pc' = "close" /\ UNCHANGED <<bleft, err>>
  /\ UNCHANGED <<msgs, x, rest, eof, copen, hdr, tr, obsvars, warcDone>>

\* ---- _read_body_by_length: one connection.read(4096)
LenDone ==
  /\ pc = "len" /\ bleft = 0
  /\ pc' = "fin"
  /\ UNCHANGED <<msgs, x, rest, eof, copen, hdr, bleft, tr, err, obsvars, warcDone>>

LenRead ==
  /\ pc = "len" /\ bleft > 0
  /\ \/ /\ rest = <<>> /\ eof                                      \* EOF before n bytes: 'Connection closed.'
        /\ Raise("network_error")
        /\ UNCHANGED <<rest, copen, bleft, delivered, recorded>>
     \/ \E k \in 1..Len(rest) :
          LET got == SubSeq(rest, 1, k)
              data == IF k > bleft THEN SubSeq(got, 1, bleft) ELSE got IN
          /\ rest' = SubSeq(rest, k + 1, Len(rest))
          /\ bleft' = IF k > bleft THEN 0 ELSE bleft - k
          /\ copen' = IF k > bleft THEN FALSE ELSE copen           \* content overrun: cut and close
          /\ Notify(data) /\ Deliver(data)
          /\ UNCHANGED <<pc, err>>
  /\ UNCHANGED <<msgs, x, eof, hdr, tr, reqRecorded, reqSent, outcome, connClosed, leftover, stalled,
                 reqRecs, respRecs, reqBlock, respBlock, linked, warcDone>>

\* ---- _read_body_until_close
CloseRead ==
  /\ pc = "close"
  /\ \/ /\ rest = <<>> /\ eof
        /\ pc' = "fin" /\ UNCHANGED <<rest, delivered, recorded>>
     \/ \E k \in 1..Len(rest) :
          /\ rest' = SubSeq(rest, k + 1, Len(rest))
          /\ Notify(SubSeq(rest, 1, k)) /\ Deliver(SubSeq(rest, 1, k))
          /\ UNCHANGED pc
  /\ UNCHANGED <<msgs, x, eof, copen, hdr, bleft, tr, err, reqRecorded, reqSent, outcome, connClosed, leftover,
                 stalled, reqRecs, respRecs, reqBlock, respBlock, linked, warcDone>>

\* ---- ChunkedTransferReader.read_chunk_header
IsHex(c) == c \in 48..57 \/ c \in 97..102 \/ c \in 65..70
HexOf(c) == IF c \in 48..57 THEN c - 48 ELSE IF c \in 97..102 THEN c - 87 ELSE c - 55
RECURSIVE HexVal(_, _)
HexVal(s, acc) == IF s = <<>> THEN acc ELSE HexVal(Tail(s), Min(acc * 16 + HexOf(s[1]), 100000))
SizeField(l) == LET S == {i \in 1..Len(l) : l[i] = 59}
                    e == IF S = {} THEN Len(l) ELSE (CHOOSE i \in S : \A j \in S : i <= j) - 1 IN
                SelectSeq(SubSeq(l, 1, e), LAMBDA c : ~White(c))

ChHdr ==
  /\ pc = "ch_hdr" /\ LineReady
  /\ LET l == TheLine
         f == SizeField(l) IN
     /\ rest' = AfterLine
     /\ IF ~EndsLF(l) THEN Raise("network_error") /\ UNCHANGED <<bleft, recorded>>
        ELSE IF f = <<>> \/ \E i \in 1..Len(f) : ~IsHex(f[i])
        THEN Raise("protocol_error") /\ UNCHANGED <<bleft, recorded>>                  \* 'Invalid chunk size'
        ELSE /\ Notify(l)
             /\ bleft' = HexVal(f, 0)
             /\ pc' = IF HexVal(f, 0) = 0 THEN "trailer" ELSE "ch_body"
             /\ UNCHANGED err
  /\ UNCHANGED <<msgs, x, eof, copen, hdr, tr, delivered, reqRecorded, reqSent, outcome, connClosed, leftover,
                 stalled, reqRecs, respRecs, reqBlock, respBlock, linked, warcDone>>

\* ---- read_chunk_body, bytes_left > 0: connection.read(min(bytes_left, 4096))
ChBody ==
  /\ pc = "ch_body"
  /\ \/ /\ rest = <<>> /\ eof                  \* empty read: "chunk finished" -> the next header read hits EOF
        /\ pc' = "ch_hdr" /\ UNCHANGED <<rest, bleft, delivered, recorded>>
     \/ \E k \in 1..Min(bleft, Len(rest)) :
          /\ rest' = SubSeq(rest, k + 1, Len(rest))
          /\ bleft' = bleft - k
          /\ Notify(SubSeq(rest, 1, k)) /\ Deliver(SubSeq(rest, 1, k))
          /\ pc' = IF bleft - k = 0 THEN "ch_nl" ELSE "ch_body"
  /\ UNCHANGED <<msgs, x, eof, copen, hdr, tr, err, reqRecorded, reqSent, outcome, connClosed, leftover,
                 stalled, reqRecs, respRecs, reqBlock, respBlock, linked, warcDone>>

\* ---- read_chunk_body, bytes_left = 0: the line end after the chunk data
ChNl ==
  /\ pc = "ch_nl" /\ LineReady
  /\ LET l == TheLine IN
     /\ rest' = AfterLine
     /\ IF Len(l) > 2 THEN Raise("protocol_error") /\ UNCHANGED recorded          \* 'Error reading newline after chunk.'
        ELSE Notify(l) /\ pc' = "ch_hdr" /\ UNCHANGED err
  /\ UNCHANGED <<msgs, x, eof, copen, hdr, bleft, tr, delivered, reqRecorded, reqSent, outcome, connClosed,
                 leftover, stalled, reqRecs, respRecs, reqBlock, respBlock, linked, warcDone>>

\* ---- read_trailer: lines until a blank one - or EOF (readline returns b'' there: finding 11);
\*      then response.fields.parse(trailer) in strict mode: a line without a colon raises ValueError
RECURSIVE BadTrailer(_)
BadTrailer(s) ==
  IF s = <<>> THEN FALSE
  ELSE LET i == LFIndex(s)
           l == IF i > 0 THEN SubSeq(s, 1, i) ELSE s
           r == IF i > 0 THEN SubSeq(s, i + 1, Len(s)) ELSE <<>> IN
       (~Blank(l) /\ ~(\E j \in 1..Len(l) : l[j] = 58)) \/ BadTrailer(r)

Trailer ==
  /\ pc = "trailer" /\ LineReady
  /\ LET l == TheLine
         t == tr \o l IN
     /\ rest' = AfterLine
     /\ IF Blank(l)
        THEN /\ Notify(t) /\ tr' = <<>>
             /\ IF BadTrailer(t) THEN Raise("other_error") ELSE pc' = "fin" /\ UNCHANGED err
        ELSE tr' = t /\ UNCHANGED <<pc, err, recorded>>
  /\ UNCHANGED <<msgs, x, eof, copen, hdr, bleft, delivered, reqRecorded, reqSent, outcome, connClosed,
                 leftover, stalled, reqRecs, respRecs, reqBlock, respBlock, linked, warcDone>>

\* ---- end of read_body (should_close: the request is HTTP/1.1, so only "Connection: close" closes),
\*      Session.download: end_response -> the recorder writes the response record
Complete(closeNow) ==
  /\ copen' = (copen /\ ~closeNow)
  /\ outcome' = [outcome EXCEPT ![x] = "ok"]
  /\ connClosed' = [connClosed EXCEPT ![x] = ~copen']
  /\ leftover' = [leftover EXCEPT ![x] = Len(rest)]
  /\ respRecs' = [respRecs EXCEPT ![x] = @ + 1]
  /\ respBlock' = [respBlock EXCEPT ![x] = recorded[x]]
  /\ linked' = [linked EXCEPT ![x] = TRUE]
  /\ x' = IF x < NX THEN x + 1 ELSE x
  /\ pc' = IF x < NX THEN "start" ELSE "done"
  /\ UNCHANGED <<msgs, rest, eof, hdr, bleft, tr, err, delivered, recorded, reqRecorded, reqSent, stalled,
                 reqRecs, reqBlock, warcDone>>

Fin   == pc = "fin" /\ Complete(FieldVal(KConn) = 1)
FinNb == pc = "finnb" /\ Complete(FALSE)

\* ---- an exception leaves read_response / read_body: close_stream_on_error closes the connection
RaiseErr ==
  /\ pc = "raise"
  /\ copen' = FALSE
  /\ outcome' = [outcome EXCEPT ![x] = err]
  /\ connClosed' = [connClosed EXCEPT ![x] = TRUE]
  /\ leftover' = [leftover EXCEPT ![x] = Len(rest)]
  /\ x' = IF x < NX THEN x + 1 ELSE x
  /\ pc' = IF x < NX THEN "start" ELSE "done"
  /\ err' = "none"
  /\ UNCHANGED <<msgs, rest, eof, hdr, bleft, tr, delivered, recorded, reqRecorded, reqSent, stalled,
                 reqRecs, respRecs, reqBlock, respBlock, linked, warcDone>>

Next == Start \/ Stall \/ HdrLine \/ Body \/ LenDone \/ LenRead \/ CloseRead \/ ChHdr \/ ChBody \/ ChNl
        \/ Trailer \/ Fin \/ FinNb \/ RaiseErr

Spec == Init /\ [][Next]_vars /\ WF_vars(Next)

-----------------------------------------------------------------------------
Terminal == pc = "done"
Terminates == <>Terminal
NoStuck == (~ENABLED Next) => Terminal

(* Known deviations of the unchanged tree (DESIGN 3.4 / 6): the design check passes with exactly these.  *)
(* A message is in a deviating class when ...                                                             *)
DevTE(m)     == ~FixTE /\ m.te # <<>> /\ ~Bodyless(m) /\ \E i \in 1..Len(m.head) :
                    IsTok(m.head[i]) /\ TokKind(m.head[i]) = KTE /\ TokVal(m.head[i]) \in {2, 3}       \* 9
DevNoBody(m) == ~FixNoBody /\ Bodyless(m) /\ (m.hascl \/ m.te # <<>>)                                   \* 10
Dev1xx(m)    == ~Fix1xx /\ m.ihead # <<>>                                                                \* 23
DevBadCL(m)  == ~FixBadCL /\ RefFraming(m) = "invalid"
\* exchange x is affected by a deviation of its own message, or by the desynchronisation an earlier one left
Dev(i) == \E j \in 1..i : DevTE(msgs[j]) \/ DevNoBody(msgs[j]) \/ Dev1xx(msgs[j]) \/ DevBadCL(msgs[j])

\* the reference holds a message to be complete when the last-chunk line has arrived; wpull's strict
\* trailer parse may still raise on a trailer cut inside a field name (outcome other_error): not a deviation,
\* CompleteIsOk only speaks about strictly complete messages.
D_Payload      == \A i \in XS : Dev(i) \/ (Ok(i) => delivered[i] = Expected(msgs[i]))
D_TruncIsError == \A i \in XS : Dev(i) \/ (Ok(i) => RefComplete(msgs[i]))
D_CompleteIsOk == \A i \in XS : Dev(i) \/ ((Done(i) /\ RefCompleteStrict(msgs[i])) => Ok(i))
D_NoOverRead   == \A i \in XS : Dev(i) \/ (stalled[i] => RefFraming(msgs[i]) = "close")
D_Persist      == \A i \in XS : Dev(i) \/ ((Ok(i) /\ ~connClosed[i]) => leftover[i] = 0)
D_RespBytes    == \A i \in XS : Dev(i) \/ (Ok(i) => RespOK(i, recorded[i]))
D_RecBlocks    == \A i \in XS : Dev(i) \/ ((Ok(i) /\ reqRecs[i] = 1 /\ respRecs[i] = 1)
                                            => (RespOK(i, respBlock[i]) /\ reqBlock[i] = reqSent[i]))

\* every deviation class really deviates somewhere (checked as "must be violated" at development time)
TypeOK ==
  /\ x \in XS
  /\ pc \in {"start", "hdr", "body", "len", "close", "ch_hdr", "ch_body", "ch_nl", "trailer", "fin", "finnb",
             "raise", "done"}
  /\ err \in {"none", "protocol_error", "network_error", "other_error"}
  /\ \A i \in XS : outcome[i] \in {"none", "ok", "protocol_error", "network_error", "other_error"}
=============================================================================
