------------------------------ MODULE HttpWire ------------------------------
(***************************************************************************)
(* Implementation-shaped model of wpull's HTTP/1.1 response reader         *)
(*   wpull/protocol/http/client.py   Session.start / download              *)
(*   wpull/protocol/http/stream.py   Stream.read_response / read_body /    *)
(*                                   _read_body_by_length/_by_chunk/_until_close, is_no_body,      *)
(*                                   get_read_strategy                     *)
(*   wpull/protocol/http/chunked.py  ChunkedTransferReader                 *)
(*   wpull/protocol/http/util.py     should_close                          *)
(*   wpull/namevalue.py              field parsing (first value wins, obs-fold joined)             *)
(*   wpull/warc/recorder.py          HTTPWARCRecorderSession (one record at end_request /          *)
(*                                   end_response, block = the notified data)                      *)
(* reading from a connection = `buf` (octets in the client's StreamReader   *)
(* buffer) + `net` (octets sent, still in flight) + `eof`.  A read that    *)
(* finds what it needs in `buf` takes it from there; otherwise ANY number  *)
(* k >= 1 of in-flight octets arrives first (ReadLine: any amount that     *)
(* brings the LF in; Read(n): one piece of any size k, of which min(n, k)  *)
(* are returned).  These k are "all segmentations of the byte stream"      *)
(* (an eager arrival is the same as a larger piece at the next read).      *)
(* One action = one read + what the    *)
(* code does with the data up to the next read, including the              *)
(* data_event_dispatcher notification (-> recorded) and file.write         *)
(* (-> delivered).  NX exchanges in lockstep: the server sends message x   *)
(* when request x has been written.                                        *)
(*                                                                         *)
(* Alphabet: real octet values for everything after the header block       *)
(* (CR 13, LF 10, hex digits, ';' 59, ':' 58, body octets); a header line  *)
(* is ONE token >= 100000 (Tok(kind, val, style)) followed by its real line  *)
(* ending, so header spelling variants are distinct tokens.                *)
(*                                                                         *)
(* The model describes the code AS IT IS; the Fix* constants switch   *)
(* to the repaired behaviour of a finding (DESIGN section 6: 9, 10, 23,    *)
(* invalid Content-Length).                                                *)
(***************************************************************************)
EXTENDS HttpWireProps

CONSTANTS
  Methods, Statuses, Interims, TESet, CLSet, ConnSet, VerSet, FmtSet,   \* message space (sets, see MsgSet)
  BodyCodes, SplitSet, ExtSet, TrailerSet, TruncMode, SCloseSet,
  FixTE,        \* TRUE: transfer-coding matched case-insensitively on the final coding   (finding 9)
  FixNoBody,    \* TRUE: HEAD / 1xx / 204 / 304 never have a body read                  (finding 10)
  Fix1xx,       \* TRUE: interim 1xx responses are skipped                              (finding 23)
  FixBadCL,     \* TRUE: invalid Content-Length is a protocol error
  FixTrailer,   \* TRUE: the trailer is parsed leniently (no ValueError for a line without a colon)
  FixStale,     \* TRUE: a kept connection with unread octets in its buffer is not reused (Stream.reconnect)
  FixHold       \* TRUE: header lines are held back and become response data only when the response is the final one

CR == 13
LF == 10

\* ---------------------------------------------------------------- header-line tokens
Tok(kind, val, style) == 1000 + kind * 100000 + val * 10 + style
IsTok(t)    == t >= 100000
TokKind(t)  == (t - 1000) \div 100000
TokVal(t)   == ((t - 1000) % 100000) \div 10
TokStyle(t) == (t - 1000) % 10
KStatus == 1   KTE == 2   KCL == 3   KConn == 4   KPad == 5
\* styles: 0 "Name: value"  1 "Name:value"  2 "Name:" (value on the next, folded, line)  3 " value" (continuation)

StatusIdx(s) == CASE s = 100 -> 1 [] s = 200 -> 2 [] s = 204 -> 3 [] s = 304 -> 4 [] OTHER -> 5
StatusOfIdx(i) == CASE i = 1 -> 100 [] i = 2 -> 200 [] i = 3 -> 204 [] i = 4 -> 304 [] OTHER -> 500
StatusVal(s, ver) == StatusIdx(s) * 2 + (IF ver = "1.0" THEN 1 ELSE 0)
TEVal(te) == CASE te = "chunked" -> 1 [] te = "Chunked" -> 2 [] te = "gzip, chunked" -> 3 [] OTHER -> 0
TECodings(te) == CASE te = "chunked" -> <<"chunked">> [] te = "Chunked" -> <<"chunked">>
                   [] te = "gzip, chunked" -> <<"gzip", "chunked">> [] OTHER -> <<>>
CLNonNum == 9998
CLNeg == 9999
ConnVal(c) == CASE c = "close" -> 1 [] c = "keep-alive" -> 2 [] OTHER -> 0

\* ---------------------------------------------------------------- the server: Bytes(msg)
Alphabet == <<97, 98, 99, 100, 101, 102>>
BodyOf(c) == IF c = 13 THEN <<97, LF, 98>> ELSE SubSeq(Alphabet, 1, c)     \* code 13: a body with an LF inside

EOL(fmt) == IF fmt = "lf" THEN <<LF>> ELSE <<CR, LF>>
FieldLines(kind, val, fmt, primary) ==
  CASE fmt = "nospace"           -> <<Tok(kind, val, 1)>> \o EOL(fmt)
    [] fmt = "folded" /\ primary -> <<Tok(kind, val, 2)>> \o EOL(fmt) \o <<Tok(kind, val, 3)>> \o EOL(fmt)
    [] fmt = "dup" /\ primary    -> <<Tok(kind, val, 0)>> \o EOL(fmt) \o <<Tok(kind, val, 0)>> \o EOL(fmt)
    [] OTHER                     -> <<Tok(kind, val, 0)>> \o EOL(fmt)

HexDigit(n) == IF n < 10 THEN 48 + n ELSE 87 + n
ChunkHdr(n, ext) == <<HexDigit(n)>> \o (IF ext THEN <<59, 120>> ELSE <<>>) \o <<CR, LF>>
Chunk(data, ext) == [hdr |-> ChunkHdr(Len(data), ext), data |-> data, end |-> <<CR, LF>>]
ChunksOf(body, split, ext) ==
  IF body = <<>> THEN <<>>
  ELSE IF split = 2 /\ Len(body) >= 2
       THEN <<Chunk(SubSeq(body, 1, 1), ext), Chunk(SubSeq(body, 2, Len(body)), ext)>>
       ELSE <<Chunk(body, ext)>>

\* b: the choice record (method, status, interim, ver, te, cl, conn, fmt, body, split, ext, tr)
CLValOf(b) ==
  LET n == Len(BodyOf(b.body)) IN
  CASE b.cl = "exact" -> n [] b.cl = "larger" -> n + 2 [] b.cl = "smaller" -> n - 1
    [] b.cl = "nonnum" -> CLNonNum [] b.cl = "neg" -> CLNeg [] OTHER -> 0

HeadOf(b) ==
  LET foldTE == b.te # "none"
      foldCL == ~foldTE /\ b.cl # "none"
      dupCL  == b.cl # "none"
      prim(k) == IF b.fmt = "folded" THEN (k = KTE /\ foldTE) \/ (k = KCL /\ foldCL) \/ (k = KPad /\ ~foldTE /\ ~foldCL)
                 ELSE IF b.fmt = "dup" THEN (k = KCL /\ dupCL) \/ (k = KPad /\ ~dupCL)
                 ELSE FALSE
  IN <<Tok(KStatus, StatusVal(b.status, b.ver), 0)>> \o EOL(b.fmt)
     \o (IF b.te # "none" THEN FieldLines(KTE, TEVal(b.te), b.fmt, prim(KTE)) ELSE <<>>)
     \o (IF b.cl # "none" THEN FieldLines(KCL, CLValOf(b), b.fmt, prim(KCL)) ELSE <<>>)
     \o (IF b.conn # "none" THEN FieldLines(KConn, ConnVal(b.conn), b.fmt, FALSE) ELSE <<>>)
     \o FieldLines(KPad, 1, b.fmt, prim(KPad))
     \o EOL(b.fmt)

IHeadOf(b) == IF b.interim = 1
              THEN <<Tok(KStatus, StatusVal(100, "1.1"), 0)>> \o EOL(b.fmt) \o EOL(b.fmt)
              ELSE <<>>

\* an RFC-conformant sender: no body after HEAD / 204 / 304; chunked format iff chunked is the final coding
SenderBodyless(b) == b.method = "HEAD" \/ b.status = 204 \/ b.status = 304

Mk(b, trunc, sclose) ==
  LET body == BodyOf(b.body)
      chk  == b.te # "none" /\ ~SenderBodyless(b) IN
  [method |-> b.method, status |-> b.status, te |-> TECodings(b.te),
   hascl |-> b.cl # "none", clok |-> b.cl \in {"exact", "larger", "smaller"}, clv |-> CLValOf(b),
   ihead |-> IHeadOf(b), head |-> HeadOf(b),
   chunked |-> chk,
   chunks |-> IF chk THEN ChunksOf(body, b.split, b.ext) ELSE <<>>,
   last |-> IF chk THEN <<48>> \o (IF b.ext THEN <<59, 120>> ELSE <<>>) \o <<CR, LF>> ELSE <<>>,
   trailer |-> IF chk THEN (IF b.tr THEN <<84, 58, 118, CR, LF, CR, LF>> ELSE <<CR, LF>>) ELSE <<>>,
   raw |-> IF chk \/ SenderBodyless(b) THEN <<>> ELSE body,
   trunc |-> trunc, sclose |-> sclose, coded |-> FALSE, content |-> <<>>]

Choices ==
  { b \in [method : Methods, status : Statuses, interim : Interims, ver : VerSet, te : TESet, cl : CLSet,
           conn : ConnSet, fmt : FmtSet, body : BodyCodes, split : SplitSet, ext : ExtSet, tr : TrailerSet] :
      /\ (b.cl = "smaller" => Len(BodyOf(b.body)) >= 1)
      \* the chunk shape only matters when chunked: one representative otherwise
      /\ (b.te = "none" => (b.split = (CHOOSE s \in SplitSet : TRUE) /\ b.ext = (CHOOSE e \in ExtSet : TRUE)
                             /\ b.tr = (CHOOSE t \in TrailerSet : TRUE)))
      /\ (b.ver = "1.0" => b.te = "none") }

\* a body shorter than its Content-Length is only "short" once the sender closes.  (A close-delimited message
\* whose sender does not close ends with the sender's idle timeout: action Stall.)
MustClose(b) == ~SenderBodyless(b) /\ b.te = "none" /\ b.cl = "larger"
TruncChoices(b) == {NoTrunc} \cup (IF TruncMode = "all" THEN 0..(Len(Full(Mk(b, NoTrunc, FALSE))) - 1) ELSE {})
CloseChoices(b, t) == IF t # NoTrunc \/ MustClose(b) THEN {TRUE} ELSE SCloseSet

ReqTok(x) == <<900000 + x>>

-----------------------------------------------------------------------------
VARIABLES
  x,        \* current exchange
  pc,       \* program counter of the client
  buf,      \* octets received by the client's StreamReader and not yet consumed
  net,      \* octets sent by the server on the current connection, still in flight
  eof,      \* the server has closed its side (seen by the client once buf and net are empty)
  copen,    \* the client holds an open connection
  hdr,      \* first tokens of the header lines read so far
  held,     \* header octets read but not yet passed on as response data (FixHold)
  bleft,    \* bytes_left (length / chunk)
  tr,       \* trailer data read so far
  err       \* error class being raised

impl == <<x, pc, buf, net, eof, copen, hdr, held, bleft, tr, err>>
vars == <<msgs, ref, impl, obsvars, warcDone>>

\* position of the first LF (0: none); written so that TLC evaluates it in linear time
LFIndex(s) == IF \E i \in 1..Len(s) : s[i] = LF
              THEN CHOOSE i \in 1..Len(s) : s[i] = LF /\ \A j \in 1..(i - 1) : s[j] # LF
              ELSE 0

InitWith(ms) ==
  /\ msgs = ms
  /\ ref = [i \in XS |-> RefRec(ms[i])]
  /\ x = 1 /\ pc = "start" /\ buf = <<>> /\ net = <<>> /\ eof = FALSE /\ copen = FALSE
  /\ hdr = <<>> /\ held = <<>> /\ bleft = 0 /\ tr = <<>> /\ err = "none"
  /\ delivered = [i \in XS |-> <<>>] /\ recorded = [i \in XS |-> <<>>]
  /\ reqRecorded = [i \in XS |-> <<>>] /\ reqSent = [i \in XS |-> <<>>]
  /\ outcome = [i \in XS |-> "none"] /\ connClosed = [i \in XS |-> FALSE]
  /\ leftover = [i \in XS |-> 0] /\ unseen = [i \in XS |-> 0] /\ stalled = [i \in XS |-> FALSE]
  /\ reqRecs = [i \in XS |-> 0] /\ respRecs = [i \in XS |-> 0]
  /\ reqBlock = [i \in XS |-> <<>>] /\ respBlock = [i \in XS |-> <<>>]
  /\ linked = [i \in XS |-> FALSE] /\ fresh = [i \in XS |-> TRUE]
  /\ warcDone = TRUE

Init == \E b1 \in Choices : \E t1 \in TruncChoices(b1) : \E s1 \in CloseChoices(b1, t1) :
          IF NX = 1 THEN InitWith(<<Mk(b1, t1, s1)>>)
          ELSE \E b2 \in Choices : \E t2 \in TruncChoices(b2) : \E s2 \in CloseChoices(b2, t2) :
                 InitWith(<<Mk(b1, t1, s1), Mk(b2, t2, s2)>>)

Notify(d)  == recorded' = [recorded EXCEPT ![x] = @ \o d]
Deliver(d) == delivered' = [delivered EXCEPT ![x] = @ \o d]
Raise(kind) == pc' = "raise" /\ err' = kind

\* ---- Session.start: (re)connect when needed, write the request; the server answers.
\* Stream.reconnect() / the pool's clean(): connection.closed() = no reader/writer, or the reader is at EOF
\* with an empty buffer.  (The FIN travels right behind the last data.)
\* ... (FixStale) or octets were received and not read: they are surplus of the previous response
Fresh   == ~copen \/ (eof /\ buf = <<>> /\ net = <<>>) \/ (FixStale /\ buf # <<>>)
Answers == Fresh \/ ~eof          \* a server that has closed does not answer
Start ==
  /\ pc = "start"
  /\ LET m == msgs[x] IN
        /\ copen' = TRUE
        /\ buf' = IF Fresh THEN <<>> ELSE buf
        /\ net' = (IF Fresh THEN <<>> ELSE net) \o (IF Answers THEN Sent(m) ELSE <<>>)
        /\ eof' = IF Answers THEN (m.trunc # NoTrunc \/ m.sclose) ELSE eof
  /\ reqRecorded' = [reqRecorded EXCEPT ![x] = ReqTok(x)]
  /\ reqSent' = [reqSent EXCEPT ![x] = ReqTok(x)]
  /\ reqRecs' = [reqRecs EXCEPT ![x] = @ + 1]
  /\ reqBlock' = [reqBlock EXCEPT ![x] = ReqTok(x)]
  /\ pc' = "hdr" /\ hdr' = <<>> /\ held' = <<>> /\ tr' = <<>> /\ bleft' = 0
  /\ fresh' = [fresh EXCEPT ![x] = Fresh]
  /\ UNCHANGED <<msgs, ref, x, err, delivered, recorded, outcome, connClosed, leftover, unseen, stalled,
                 respRecs, respBlock, linked, warcDone>>

\* ---- the two read primitives (asyncio.StreamReader semantics)
All == buf \o net
\* readline(): through the first LF; feeds arrive until the LF is in the buffer, the last one may bring more
LineReady == LFIndex(All) > 0 \/ eof
\* j: how much of All is in the buffer once the line is complete
LineExtents == IF LFIndex(buf) > 0 THEN {Len(buf)}
               ELSE IF LFIndex(All) > 0 THEN LFIndex(All)..Len(All)
               ELSE {Len(All)}
TheLine == IF LFIndex(All) > 0 THEN SubSeq(All, 1, LFIndex(All)) ELSE All
TakeLine(j) == LET i == IF LFIndex(All) > 0 THEN LFIndex(All) ELSE Len(All) IN
               /\ buf' = SubSeq(All, i + 1, j)
               /\ net' = SubSeq(All, j + 1, Len(All))
\* read(n): what is buffered (up to n); with an empty buffer one piece of k octets arrives first
PieceChoices == IF buf # <<>> THEN {0} ELSE 1..Len(net)
Avail(k) == IF buf # <<>> THEN buf ELSE SubSeq(net, 1, k)
TakeBytes(n, k) == /\ buf' = Drop(Avail(k), n)
                   /\ net' = IF buf # <<>> THEN net ELSE SubSeq(net, k + 1, Len(net))
AtEOF == buf = <<>> /\ net = <<>> /\ eof
ReadSize == 4096      \* Stream._read_size, ChunkedTransferReader._read_size

\* ---- a read blocks although the server has nothing more to send: the server's idle timeout closes
NeedsLine  == pc \in {"hdr", "ch_hdr", "ch_nl", "trailer"}
NeedsBytes == pc \in {"len", "ch_body", "close"} /\ ~(pc = "len" /\ bleft = 0)
Stall ==
  /\ ~eof
  /\ (NeedsLine /\ LFIndex(All) = 0) \/ (NeedsBytes /\ All = <<>>)
  /\ eof' = TRUE
  /\ stalled' = [stalled EXCEPT ![x] = TRUE]
  /\ UNCHANGED <<msgs, ref, x, pc, buf, net, copen, hdr, held, bleft, tr, err, delivered, recorded, reqRecorded, reqSent,
                 outcome, connClosed, leftover, unseen, reqRecs, respRecs, reqBlock, respBlock, linked, fresh, warcDone>>

EndsLF(l) == l # <<>> /\ l[Len(l)] = LF
White(c) == c \in {CR, LF, 32, 9}
Blank(l) == \A i \in 1..Len(l) : White(l[i])

\* ---- header fields as wpull sees them (NameValueRecord: first value wins; a folded line continues the
\*      previous one, so the value of a "Name:" + continuation pair is the continuation's)
FieldToks(k) == SelectSeq(hdr, LAMBDA t : IsTok(t) /\ TokKind(t) = k /\ TokStyle(t) \in {0, 1, 3})
HasField(k)  == FieldToks(k) # <<>>
FieldVal(k)  == IF HasField(k) THEN TokVal(FieldToks(k)[1]) ELSE 0
StatusSeen   == StatusOfIdx(TokVal(hdr[1]) \div 2)
NoContentCode(s) == s \in 100..199 \/ s = 204 \/ s = 304

\* stream.py is_no_body
IsNoBody(m) ==
  IF FixNoBody THEN NoContentCode(StatusSeen) \/ m.method = "HEAD"
  ELSE ~HasField(KCL) /\ ~HasField(KTE) /\ (NoContentCode(StatusSeen) \/ m.method = "HEAD")
\* stream.py get_read_strategy: re.match(r'chunked($|;)', first Transfer-Encoding value)
Strategy ==
  IF HasField(KTE) /\ (FieldVal(KTE) = 1 \/ (FixTE /\ FieldVal(KTE) \in {1, 2, 3})) THEN "chunked"
  ELSE IF HasField(KCL) THEN "length" ELSE "close"

\* ---- Stream.read_response: one header line
\* Session.start: what read_response reads is response data of the FINAL response only.  FixHold: the lines are held
\* back; they are passed on when the header block ends (or the read fails) and dropped with a skipped interim response.
Hold(l)  == IF FixHold THEN held' = held \o l /\ UNCHANGED recorded ELSE Notify(l) /\ UNCHANGED held
Flush(l) == IF FixHold THEN Notify(held \o l) /\ held' = <<>> ELSE Notify(l) /\ UNCHANGED held
Drop1xx(l) == IF FixHold THEN held' = <<>> /\ UNCHANGED recorded ELSE Notify(l) /\ UNCHANGED held
HdrLineAt(j) ==
  /\ pc = "hdr" /\ LineReady
  /\ TakeLine(j)
  /\ LET l == TheLine IN
     /\ IF ~EndsLF(l) THEN Raise("network_error") /\ Flush(l) /\ UNCHANGED hdr       \* 'Connection closed.'
        ELSE IF l \in {<<CR, LF>>, <<LF>>}
        THEN IF hdr = <<>> THEN Raise("protocol_error") /\ Flush(l) /\ UNCHANGED hdr  \* 'No header received.'
             ELSE IF ~(IsTok(hdr[1]) /\ TokKind(hdr[1]) = KStatus)
                  THEN Raise("protocol_error") /\ Flush(l) /\ UNCHANGED hdr            \* status line does not parse
                  ELSE IF Fix1xx /\ StatusSeen \in 100..199
                       THEN pc' = "hdr" /\ hdr' = <<>> /\ Drop1xx(l) /\ UNCHANGED err  \* skip the interim response
                       ELSE pc' = "body" /\ Flush(l) /\ UNCHANGED <<hdr, err>>
        ELSE pc' = "hdr" /\ hdr' = Append(hdr, l[1]) /\ Hold(l) /\ UNCHANGED err
  /\ UNCHANGED <<msgs, ref, x, eof, copen, bleft, tr, delivered, reqRecorded, reqSent, outcome, connClosed, leftover,
                 unseen, stalled, reqRecs, respRecs, reqBlock, respBlock, linked, fresh, warcDone>>

\* ---- Stream.read_body: choose how to read
Body ==
  /\ pc = "body"
  /\ LET m == msgs[x] IN
     IF IsNoBody(m) THEN pc' = "finnb" /\ UNCHANGED <<bleft, err>>            \* returns before the keep-alive decision
     ELSE IF Strategy = "chunked" THEN pc' = "ch_hdr" /\ UNCHANGED <<bleft, err>>
     ELSE IF Strategy = "length"
          THEN IF FieldVal(KCL) \in {CLNonNum, CLNeg}
               THEN IF FixBadCL THEN Raise("protocol_error") /\ UNCHANGED bleft
                    ELSE pc' = "close" /\ UNCHANGED <<bleft, err>>               \* warning, then read until close
               ELSE pc' = "len" /\ bleft' = FieldVal(KCL) /\ UNCHANGED err
     ELSE pc' = "close" /\ UNCHANGED <<bleft, err>>
  /\ UNCHANGED <<msgs, ref, x, buf, net, eof, copen, hdr, held, tr, obsvars, warcDone>>

\* ---- _read_body_by_length: one connection.read(4096) 
LenDone ==
  /\ pc = "len" /\ bleft = 0
  /\ pc' = "fin"
  /\ UNCHANGED <<msgs, ref, x, buf, net, eof, copen, hdr, held, bleft, tr, err, obsvars, warcDone>>

LenEOF ==
  /\ pc = "len" /\ bleft > 0 /\ AtEOF                              \* EOF before n bytes: 'Connection closed.'
  /\ Raise("network_error")
  /\ UNCHANGED <<buf, net, copen, bleft, delivered, recorded>>
  /\ UNCHANGED <<msgs, ref, x, eof, hdr, held, tr, reqRecorded, reqSent, outcome, connClosed, leftover, unseen, stalled,
                 reqRecs, respRecs, reqBlock, respBlock, linked, fresh, warcDone>>

LenReadAt(k) ==
  /\ pc = "len" /\ bleft > 0
  /\      LET got == Prefix(Avail(k), ReadSize)
              n == Len(got)
              data == IF n > bleft THEN SubSeq(got, 1, bleft) ELSE got IN
          /\ TakeBytes(ReadSize, k)
          /\ bleft' = IF n > bleft THEN 0 ELSE bleft - n
          /\ copen' = IF n > bleft THEN FALSE ELSE copen           \* content overrun: cut and close
          /\ Notify(data) /\ Deliver(data)
          /\ UNCHANGED <<pc, err>>
  /\ UNCHANGED <<msgs, ref, x, eof, hdr, held, tr, reqRecorded, reqSent, outcome, connClosed, leftover, unseen, stalled,
                 reqRecs, respRecs, reqBlock, respBlock, linked, fresh, warcDone>>

\* ---- _read_body_until_close
CloseEOF ==
  /\ pc = "close" /\ AtEOF
  /\ pc' = "fin" /\ UNCHANGED <<buf, net, delivered, recorded>>
  /\ UNCHANGED <<msgs, ref, x, eof, copen, hdr, held, bleft, tr, err, reqRecorded, reqSent, outcome, connClosed, leftover,
                 unseen, stalled, reqRecs, respRecs, reqBlock, respBlock, linked, fresh, warcDone>>

CloseReadAt(k) ==
  /\ pc = "close"
  /\      /\ TakeBytes(ReadSize, k)
          /\ Notify(Prefix(Avail(k), ReadSize)) /\ Deliver(Prefix(Avail(k), ReadSize))
          /\ UNCHANGED pc
  /\ UNCHANGED <<msgs, ref, x, eof, copen, hdr, held, bleft, tr, err, reqRecorded, reqSent, outcome, connClosed, leftover,
                 unseen, stalled, reqRecs, respRecs, reqBlock, respBlock, linked, fresh, warcDone>>

\* ---- ChunkedTransferReader.read_chunk_header
IsHex(c) == c \in 48..57 \/ c \in 97..102 \/ c \in 65..70
HexOf(c) == IF c \in 48..57 THEN c - 48 ELSE IF c \in 97..102 THEN c - 87 ELSE c - 55
RECURSIVE HexVal(_, _)
HexVal(s, acc) == IF s = <<>> THEN acc ELSE HexVal(Tail(s), Min(acc * 16 + HexOf(s[1]), 100000))
SizeField(l) == LET e == IF \E i \in 1..Len(l) : l[i] = 59
                         THEN (CHOOSE i \in 1..Len(l) : l[i] = 59 /\ \A j \in 1..(i - 1) : l[j] # 59) - 1
                         ELSE Len(l) IN
                SelectSeq(SubSeq(l, 1, e), LAMBDA c : ~White(c))

ChHdrAt(j) ==
  /\ pc = "ch_hdr" /\ LineReady
  /\ TakeLine(j)
  /\ LET l == TheLine
         f == SizeField(l) IN
     IF ~EndsLF(l) THEN Raise("network_error") /\ UNCHANGED <<bleft, recorded>>
     ELSE IF f = <<>> \/ \E i \in 1..Len(f) : ~IsHex(f[i])
     THEN Raise("protocol_error") /\ UNCHANGED <<bleft, recorded>>                  \* 'Invalid chunk size'
     ELSE /\ Notify(l)
          /\ bleft' = HexVal(f, 0)
          /\ pc' = IF HexVal(f, 0) = 0 THEN "trailer" ELSE "ch_body"
          /\ UNCHANGED err
  /\ UNCHANGED <<msgs, ref, x, eof, copen, hdr, held, tr, delivered, reqRecorded, reqSent, outcome, connClosed, leftover,
                 unseen, stalled, reqRecs, respRecs, reqBlock, respBlock, linked, fresh, warcDone>>

\* ---- read_chunk_body, bytes_left > 0: connection.read(min(bytes_left, 4096))
ChBodyEOF ==
  /\ pc = "ch_body" /\ AtEOF                     \* empty read: "chunk finished" -> the next header read hits EOF
  /\ pc' = "ch_hdr" /\ UNCHANGED <<buf, net, bleft, delivered, recorded>>
  /\ UNCHANGED <<msgs, ref, x, eof, copen, hdr, held, tr, err, reqRecorded, reqSent, outcome, connClosed, leftover,
                 unseen, stalled, reqRecs, respRecs, reqBlock, respBlock, linked, fresh, warcDone>>

ChBodyAt(k) ==
  /\ pc = "ch_body"
  /\      LET data == Prefix(Avail(k), Min(bleft, ReadSize)) IN
          /\ TakeBytes(Min(bleft, ReadSize), k)
          /\ bleft' = bleft - Len(data)
          /\ Notify(data) /\ Deliver(data)
          /\ pc' = IF bleft - Len(data) = 0 THEN "ch_nl" ELSE "ch_body"
  /\ UNCHANGED <<msgs, ref, x, eof, copen, hdr, held, tr, err, reqRecorded, reqSent, outcome, connClosed, leftover,
                 unseen, stalled, reqRecs, respRecs, reqBlock, respBlock, linked, fresh, warcDone>>

\* ---- read_chunk_body, bytes_left = 0: the line end after the chunk data
ChNlAt(j) ==
  /\ pc = "ch_nl" /\ LineReady
  /\ TakeLine(j)
  /\ LET l == TheLine IN
     IF Len(l) > 2 THEN Raise("protocol_error") /\ UNCHANGED recorded          \* 'Error reading newline after chunk.'
     ELSE Notify(l) /\ pc' = "ch_hdr" /\ UNCHANGED err
  /\ UNCHANGED <<msgs, ref, x, eof, copen, hdr, held, bleft, tr, delivered, reqRecorded, reqSent, outcome, connClosed,
                 leftover, unseen, stalled, reqRecs, respRecs, reqBlock, respBlock, linked, fresh, warcDone>>

\* ---- read_trailer: lines until a blank one; end of stream before it is an error (was: taken for the blank line);
\*      then response.fields.parse(trailer) in strict mode: a line without a colon raises ValueError
RECURSIVE BadTrailer(_)
BadTrailer(s) ==
  IF s = <<>> THEN FALSE
  ELSE LET i == LFIndex(s)
           l == IF i > 0 THEN SubSeq(s, 1, i) ELSE s
           r == IF i > 0 THEN SubSeq(s, i + 1, Len(s)) ELSE <<>> IN
       (~Blank(l) /\ ~(\E j \in 1..Len(l) : l[j] = 58)) \/ BadTrailer(r)

TrailerAt(j) ==
  /\ pc = "trailer" /\ LineReady
  /\ TakeLine(j)
  /\ LET l == TheLine
         t == tr \o l IN
     \* (end of stream inside the trailer section: the message is cut short - NetworkError, as in read_chunk_header)
     IF ~EndsLF(l) THEN Raise("network_error") /\ UNCHANGED <<tr, recorded>>
     ELSE IF Blank(l)
     THEN /\ Notify(t) /\ tr' = <<>>
          /\ IF BadTrailer(t) /\ ~FixTrailer THEN Raise("other_error") ELSE pc' = "fin" /\ UNCHANGED err
     ELSE tr' = t /\ UNCHANGED <<pc, err, recorded>>
  /\ UNCHANGED <<msgs, ref, x, eof, copen, hdr, held, bleft, delivered, reqRecorded, reqSent, outcome, connClosed,
                 leftover, unseen, stalled, reqRecs, respRecs, reqBlock, respBlock, linked, fresh, warcDone>>

\* ---- end of read_body (should_close: the request is HTTP/1.1, so only "Connection: close" closes),
\*      Session.download: end_response -> the recorder writes the response record
Complete(closeNow) ==
  /\ copen' = (copen /\ ~closeNow)
  /\ outcome' = [outcome EXCEPT ![x] = "ok"]
  /\ connClosed' = [connClosed EXCEPT ![x] = ~copen']
  /\ leftover' = [leftover EXCEPT ![x] = Len(buf)]
  /\ unseen' = [unseen EXCEPT ![x] = Len(net)]
  /\ respRecs' = [respRecs EXCEPT ![x] = @ + 1]
  /\ respBlock' = [respBlock EXCEPT ![x] = recorded[x]]
  /\ linked' = [linked EXCEPT ![x] = TRUE]
  /\ x' = IF x < NX THEN x + 1 ELSE x
  /\ pc' = IF x < NX THEN "start" ELSE "done"
  /\ UNCHANGED <<msgs, ref, buf, net, eof, hdr, held, bleft, tr, err, delivered, recorded, reqRecorded, reqSent, stalled,
                 reqRecs, reqBlock, fresh, warcDone>>

Fin   == pc = "fin" /\ Complete(FieldVal(KConn) = 1)
FinNb == pc = "finnb" /\ Complete(FALSE)

\* ---- an exception leaves read_response / read_body: close_stream_on_error closes the connection
RaiseErr ==
  /\ pc = "raise"
  /\ copen' = FALSE
  /\ outcome' = [outcome EXCEPT ![x] = err]
  /\ connClosed' = [connClosed EXCEPT ![x] = TRUE]
  /\ leftover' = [leftover EXCEPT ![x] = Len(buf)]
  /\ unseen' = [unseen EXCEPT ![x] = Len(net)]
  /\ x' = IF x < NX THEN x + 1 ELSE x
  /\ pc' = IF x < NX THEN "start" ELSE "done"
  /\ err' = "none"
  /\ UNCHANGED <<msgs, ref, buf, net, eof, hdr, held, bleft, tr, delivered, recorded, reqRecorded, reqSent, stalled,
                 reqRecs, respRecs, reqBlock, respBlock, linked, fresh, warcDone>>

\* the reads with their nondeterministic choice: how far the buffer extends once the line is in (j), how many
\* octets the arriving piece has (k)
HdrLine   == \E j \in LineExtents : HdrLineAt(j)
ChHdr     == \E j \in LineExtents : ChHdrAt(j)
ChNl      == \E j \in LineExtents : ChNlAt(j)
Trailer   == \E j \in LineExtents : TrailerAt(j)
LenRead   == LenEOF \/ \E k \in PieceChoices : LenReadAt(k)
CloseRead == CloseEOF \/ \E k \in PieceChoices : CloseReadAt(k)
ChBody    == ChBodyEOF \/ \E k \in PieceChoices : ChBodyAt(k)

Next == Start \/ Stall \/ HdrLine \/ Body \/ LenDone \/ LenRead \/ CloseRead \/ ChHdr \/ ChBody \/ ChNl
        \/ Trailer \/ Fin \/ FinNb \/ RaiseErr

Spec == Init /\ [][Next]_vars /\ WF_vars(Next)

-----------------------------------------------------------------------------
Terminal == pc = "done"
Terminates == <>Terminal
NoStuck == (~ENABLED Next) => Terminal

(* Known deviations of the unchanged tree (DESIGN 3.4 / 6): the design check passes with exactly these   *)
(* classes of messages exempted.                                                                          *)
DevTE(m)     == ~FixTE /\ m.te # <<>> /\ \E i \in 1..Len(m.head) :
                    IsTok(m.head[i]) /\ TokKind(m.head[i]) = KTE /\ TokVal(m.head[i]) \in {2, 3}       \* 9
DevNoBody(m) == ~FixNoBody /\ Bodyless(m) /\ (m.hascl \/ m.te # <<>>)                                   \* 10
Dev1xx(m)    == ~Fix1xx /\ m.ihead # <<>>                                                                \* 23
DevBadCL(m)  == ~FixBadCL /\ RefFraming(m) = "invalid"
\* Content-Length: 0 followed by surplus octets: no read is made, so the surplus is never seen and the
\* connection is kept with it
DevSurplus0(m) == ~FixStale /\ RefFraming(m) = "length" /\ m.clv = 0 /\ m.raw # <<>>
\* exchange i is affected by a deviation of its own message, or by the desynchronisation an earlier one left
Dev(i) == \E j \in 1..i : DevTE(msgs[j]) \/ DevNoBody(msgs[j]) \/ Dev1xx(msgs[j]) \/ DevBadCL(msgs[j])
                           \/ DevSurplus0(msgs[j])

D_Payload      == \A i \in XS : Dev(i) \/ ((Clean(i) /\ Ok(i)) => delivered[i] = ref[i].expected)
D_TruncIsError == \A i \in XS : Dev(i) \/ ((Clean(i) /\ Ok(i)) => ref[i].complete)
D_CompleteIsOk == \A i \in XS : Dev(i) \/ ((Clean(i) /\ Done(i) /\ ref[i].completeS) => Ok(i))
D_NoOverRead   == \A i \in XS : Dev(i) \/ ((Clean(i) /\ stalled[i]) => ref[i].framing = "close")
D_Persist      == \A i \in XS : Dev(i) \/ ((Clean(i) /\ Ok(i) /\ ~connClosed[i] /\ leftover[i] > 0)
                                            => (i + 1 \in XS /\ Done(i + 1) => fresh[i + 1]))
D_WholeMessage == \A i \in XS : Dev(i) \/ ((Clean(i) /\ Ok(i) /\ ~connClosed[i] /\ ref[i].framing # "close")
                                            => Consumed(i) >= Len(ref[i].ibytes) + Len(ref[i].bytes))
D_RespBytes    == \A i \in XS : Dev(i) \/ ((Clean(i) /\ Ok(i)) => RespOK(i, recorded[i]))
D_RecBlocks    == \A i \in XS : Dev(i) \/ ((Ok(i) /\ reqRecs[i] = 1 /\ respRecs[i] = 1)
                                            => ((Clean(i) => RespOK(i, respBlock[i])) /\ reqBlock[i] = reqSent[i]))

TypeOK ==
  /\ x \in XS
  /\ pc \in {"start", "hdr", "body", "len", "close", "ch_hdr", "ch_body", "ch_nl", "trailer", "fin", "finnb",
             "raise", "done"}
  /\ err \in {"none", "protocol_error", "network_error", "other_error"}
  /\ \A i \in XS : outcome[i] \in {"none", "ok", "protocol_error", "network_error", "other_error"}
=============================================================================
