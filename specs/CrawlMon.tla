------------------------------ MODULE CrawlMon ------------------------------
(***************************************************************************)
(* Observation monitor for complete crawls of the real wpull application   *)
(* (C01, C03, C18, C20 and the crawl-level part of C02).                   *)
(*                                                                         *)
(* Each trace carries the site it was recorded on (graph, hosts, server    *)
(* behaviour per URL, robots rules, options) and the recorded events:      *)
(* URL-table transactions (after commit), requests received and answered   *)
(* by the server, visit begin/end, crash, exit, final rows.  The monitor   *)
(* mirrors the table from the transactions, counts requests, and evaluates *)
(* every property clause at the event where it becomes decidable; the      *)
(* first violated clause is kept in `viol`.  The reference sets (which     *)
(* URLs must / may be requested) are computed here, from the site and the  *)
(* documented meaning of the options, not from the code.                   *)
(***************************************************************************)
EXTENDS Naturals, FiniteSets, Sequences, TLC, Json, IOUtils, TLCExt

Batch == JsonDeserialize(IOEnv.TRACE_FILE)
NT    == Len(Batch)

VARIABLES tid, l,
  run,          \* 1 or 2 (after a crash)
  st, try, lvl, \* mirror of the table rows: st[u] in {"none","todo","in_progress","done","error","skipped"}
  req,          \* req[r][u]: page requests for URL u received in run r
  n416,         \* n416[u]: requests for URL u of the resumed run that the server refused with 416 (--continue, Range)
  vreq,         \* vreq[u]: requests (any) issued by the current visit of item u
  vtry,         \* vtry[u]: try count of item u when its current visit began
  robotsDone,   \* robotsDone[h]: a robots.txt answer (200, 404, ...) of host h has been delivered
  robotsAsked,  \* robotsAsked[h]: number of robots.txt requests for host h made after it was obtained
  pend,         \* (unused)
  mayreq, mayreqNF, expected,   \* reference sets of this trace's site, computed once in MInit
  doneAtCrash, rowsAtCrash, crashed, exited, viol

mvars == <<tid, l, run, st, try, lvl, req, n416, vreq, vtry, robotsDone, robotsAsked, pend, mayreq, mayreqNF, expected,
           doneAtCrash, rowsAtCrash, crashed, exited, viol>>

S   == Batch[tid]
Ev  == S.ev
Cur == Ev[l]
O   == S.opts
URLs  == 1..S.U
Hosts == 1..S.OR    \* origins (host name + port): the unit robots.txt applies to
Range(f) == {f[i] : i \in DOMAIN f}

-----------------------------------------------------------------------------
(* Reference semantics of the scope options on the abstract site            *)

StartSet   == Range(S.start)
StartHosts == {S.host[s] : s \in StartSet}
RobotsOn   == O.robots = 1
Disallowed(u) == RobotsOn /\ S.robotskind[S.origin[u]] = "rules" /\ S.disallowed[u] = 1
\* --no-parent: a URL outside the directory of the start URL is followed only as a page requisite (the rule is about
\* the link's OWN URL, whatever page it was found in)
ParentOK(c, inl) == ("noparent" \in DOMAIN O /\ O.noparent = 1 /\ S.outside[c] = 1) => inl = 1

\* a link to c found at depth d-1 (so c has depth d), inline or not
HostOK(c)  == O.spanhosts = 1 \/ S.host[c] \in StartHosts
ScopeOK(c, d, inl) ==
  /\ HostOK(c)
  /\ IF inl = 1 THEN O.pagereq = 1 ELSE O.recursive = 1
  /\ O.level = 0 \/ d <= O.level + (IF inl = 1 THEN 2 ELSE 0)
  /\ S.rejected[c] = 0
  /\ ParentOK(c, inl)

\* redirect hop of the visit of an item with depth d / inline flag: every rule is re-applied to the
\* target; with strong redirects only the host rule is waived
HopOK(t, d, inl) ==
  /\ (HostOK(t) \/ O.strong = 1)
  /\ (d = 0 \/ (IF inl = 1 THEN O.pagereq = 1 ELSE O.recursive = 1))
  /\ S.rejected[t] = 0
  /\ ParentOK(t, inl)
  /\ ~Disallowed(t)

\* URLs requested by one visit of item u (u first): follows redirects while allowed, at most maxredir follow-ups
RECURSIVE Chain(_, _, _, _)
Chain(x, n, d, inl) ==
  IF S.kind[x] # "redirect" \/ S.rto[x] = 0 \/ n >= O.maxredir \/ ~HopOK(S.rto[x], d, inl)
  THEN <<x>>
  ELSE <<x>> \o Chain(S.rto[x], n + 1, d, inl)

Last(s) == s[Len(s)]
\* the document a visit of u finally yields (0 = none)
FinalPage(u, d, inl) == LET c == Chain(u, 0, d, inl) IN IF S.kind[Last(c)] = "page" THEN Last(c) ELSE 0

\* links scraped by the visit of u: those of its final page; a page that declares nofollow yields
\* only its inline objects when robots checking is on
\* (nf = FALSE ignores the nofollow declaration: used only to tell a nofollow violation from a scope violation)
LinksOf(u, d, inl, nf) ==
  LET p == FinalPage(u, d, inl) IN
    \* implicit children (--sitemaps: /robots.txt and /sitemap.xml of a start URL's origin) belong to the ITEM: they are
    \* recorded before its first request, whatever that request yields
    {k \in Range(S.links) : k[1] = u /\ k[4] = 1 /\ d = 0}
    \cup (IF p = 0 THEN {}
          ELSE {k \in Range(S.links) : k[1] = p /\ k[4] = 0 /\ ~(nf /\ RobotsOn /\ S.nofollow[p] = 1 /\ k[3] = 0)})

\* breadth-first layers: set of <<u, depth, inline>>, each URL with its shortest in-scope depth
RECURSIVE Layers(_, _, _, _)
Layers(front, seen, d, nf) ==
  IF front = {} \/ d > S.U + 1 THEN seen
  ELSE LET seen2 == seen \cup front
           have  == {x[1] : x \in seen2}
           nxt   == { <<k[2], d + 1, k[3]>> :
                        k \in UNION { LinksOf(x[1], x[2], x[3], nf) : x \in front } }
           ok    == { y \in nxt : y[1] \notin have /\ ScopeOK(y[1], y[2], y[3]) /\ ~Disallowed(y[1]) }
       IN Layers(ok, seen2, d + 1, nf)

ReachN(nf) == Layers({<<s, 0, 0>> : s \in {x \in StartSet : ~Disallowed(x)}}, {}, 0, nf)
ReachT == ReachN(TRUE)
Reach  == {x[1] : x \in ReachT}
\* URLs that may be requested at all: reachable items and the hops of their redirect chains
MayReqN(nf) == UNION { Range(Chain(x[1], 0, x[2], x[3])) : x \in ReachN(nf) }
MayReq == MayReqN(TRUE)
\* how often URL y is requested by a crawl in which nothing fails
\* (a URL reached in two roles - link and embedded object - is still one item)
Expected(y) == Cardinality({x[1] : x \in {z \in ReachT : y \in Range(Chain(z[1], 0, z[2], z[3]))}})

-----------------------------------------------------------------------------
MInit ==
  /\ tid \in 1..NT /\ l = 1 /\ run = 1
  /\ st = [u \in URLs |-> "none"] /\ try = [u \in URLs |-> 0] /\ lvl = [u \in URLs |-> 0]
  /\ req = [r \in 1..2 |-> [u \in URLs |-> 0]] /\ n416 = [u \in URLs |-> 0]
  /\ vreq = [u \in URLs |-> 0] /\ vtry = [u \in URLs |-> 0]
  /\ robotsDone = [h \in Hosts |-> FALSE] /\ robotsAsked = [h \in Hosts |-> 0]
  /\ pend = <<>>
  /\ mayreq = MayReqN(TRUE) /\ mayreqNF = MayReqN(FALSE) /\ expected = [u \in URLs |-> Expected(u)]
  /\ doneAtCrash = {} /\ rowsAtCrash = {} /\ crashed = FALSE /\ exited = FALSE /\ viol = 0

InU(u) == u \in URLs

\* ---- clause evaluation at an event (0 = fine); clause numbers are mapped to properties by the driver
\* requests of one visit: the first one, at most maxredir follow-ups, and ONE repetition with credentials after a 401
VisitBound == O.maxredir + 1 + (IF O.auth > 0 THEN 1 ELSE 0)

ReqViol(e) ==
  IF e.kind = "robots"
  THEN IF ~RobotsOn THEN 30                                         \* robots.txt fetched although checking is off
       \* C02: the control file itself is exempt from the scope rules, the TARGET OF ITS REDIRECT is not
       ELSE IF e.rj THEN 23
       ELSE IF e.h \in Hosts /\ robotsDone[e.h] THEN 31             \* C20: fetched again once obtained
       \* C02: the control file of an origin none of whose URLs may be visited (a URL that robots.txt itself
       \* forbids still counts: the file has to be read to learn that)
       ELSE IF e.h \in Hosts /\ ~\E u \in URLs : S.origin[u] = e.h /\ (u \in mayreq \/ u \in mayreqNF \/ Disallowed(u))
            THEN 22
       ELSE 0
  ELSE IF ~InU(e.u) THEN (IF e.kind = "other" THEN 20 ELSE 0)        \* C02: request for a URL that is not on the site map
  ELSE IF RobotsOn /\ ~robotsDone[S.origin[e.u]] THEN 32               \* C20: page requested before robots.txt obtained
  ELSE IF Disallowed(e.u) THEN 33                                    \* C20: disallowed URL requested
  ELSE IF e.u \notin mayreq
       THEN (IF e.u \in mayreqNF THEN 34                       \* C20: a link of a nofollow page was followed
             ELSE 21)                                                \* C02: outside the configured scope
  ELSE IF InU(e.item) /\ vreq[e.item] + 1 > VisitBound THEN 40       \* C18: more requests in one visit than allowed
  ELSE IF InU(e.item) /\ O.tries > 0 /\ vtry[e.item] >= O.tries THEN 41  \* C18: attempted again after tries exhausted
  ELSE 0

\* every clause a page request violates (ReqViol names the first)
ReqViolAll(e) ==
  IF e.kind = "robots" \/ ~InU(e.u) THEN {ReqViol(e)} \ {0}
  ELSE ({ReqViol(e)} \ {0})
       \cup (IF RobotsOn /\ ~robotsDone[S.origin[e.u]] THEN {32} ELSE {})
       \cup (IF Disallowed(e.u) THEN {33} ELSE {})
       \cup (IF e.u \notin mayreq THEN (IF e.u \in mayreqNF THEN {34} ELSE {21}) ELSE {})
       \cup (IF InU(e.item) /\ vreq[e.item] + 1 > VisitBound THEN {40} ELSE {})
       \cup (IF InU(e.item) /\ O.tries > 0 /\ vtry[e.item] >= O.tries THEN {41} ELSE {})

ExitViol(e) ==
  IF S.benign = 1 /\ ~crashed
  THEN IF e.code # 0 THEN 10
       ELSE IF \E u \in URLs : req[1][u] < expected[u] THEN 11      \* C01: an in-scope reachable URL was not requested
       ELSE IF \E u \in URLs : req[1][u] > expected[u] THEN 12      \* C01: requested more than once
       ELSE IF \E u \in URLs : st[u] \notin {"none", "done", "skipped"} THEN 13   \* C01: a row left non-final
       \* C01, read strictly: a URL is requested once even when it is the target of a redirect and ALSO linked (or the
       \* target of two redirects).  `expected` counts one request per item whose redirect chain passes through the URL,
       \* which is what following redirects inside the redirecting item amounts to
       ELSE IF \E u \in URLs : expected[u] > 1 /\ req[1][u] > 1 THEN 15
       ELSE 0
  ELSE IF S.benign = 1 /\ crashed
  THEN IF \E u \in doneAtCrash : req[2][u] > 0 THEN 50               \* C03: done before the kill, requested again
       ELSE IF \E u \in URLs : st[u] = "in_progress" THEN 51         \* C03: left stuck in progress
       ELSE IF \E u \in rowsAtCrash : st[u] = "none" THEN 52         \* C03: a discovered URL was lost
       ELSE IF \E u \in URLs : req[1][u] + req[2][u] = 0 /\ expected[u] > 0 THEN 53   \* C03: never requested
       ELSE IF \E u \in URLs : st[u] \notin {"none", "done", "skipped"} THEN 54
       \* C03: the resumed run itself requests a URL more often than a crawl does (a database damaged by the kill,
       \* e.g. one that stores the same URL twice); sites whose answers never fail only
       \* (a request that a Range-honouring server refuses with 416 - the document on disk is complete already - is
       \* an answer that fails: the request that follows it is a retry, not a second fetch)
       ELSE IF \E u \in URLs : S.kind[u] \in {"page", "redirect"} /\ req[2][u] > expected[u] + n416[u] THEN 55
       ELSE 0
  ELSE IF \E u \in URLs : st[u] \in {"todo", "in_progress"} THEN 42   \* C18: crawl ended with pending work
  ELSE IF \E u \in URLs : st[u] = "error" /\ O.tries > 0 /\ try[u] < O.tries THEN 43
  ELSE 0

Cap(n) == IF n < 9 THEN n + 1 ELSE n

\* clause numbers of the property this batch is checked for (empty: every clause counts)
Focus == IF "focus" \in DOMAIN Batch[tid] THEN Range(Batch[tid].focus) ELSE {}
Own(c) == Focus = {} \/ c \in Focus

MNext ==
  /\ l <= Len(Ev) /\ l' = l + 1 /\ UNCHANGED tid
  /\ LET e == Cur IN
     /\ run' = IF e.e = "start" THEN e.run ELSE run
     /\ crashed' = (crashed \/ e.e = "crash")
     /\ exited' = (exited \/ e.e = "exit")
     \* after the kill the harness reads the table back (dbsync): what the database says is what "recorded
     \* before the kill" means (the last transaction may have committed without its event having been logged)
     /\ doneAtCrash' = IF e.e = "dbsync" THEN {u \in URLs : e.st[u] = "done"} ELSE doneAtCrash
     /\ rowsAtCrash' = IF e.e = "dbsync" THEN {u \in URLs : e.st[u] # "none"} ELSE rowsAtCrash
     \* ---- table mirror
     /\ st' = IF e.e = "dbsync" THEN [u \in URLs |-> e.st[u]]
              ELSE IF e.e = "tx" /\ e.op = "add_many"
              THEN [u \in URLs |-> IF u \in Range(e.new) /\ st[u] = "none" THEN "todo" ELSE st[u]]
              ELSE IF e.e = "tx" /\ e.op = "check_out" /\ e.found /\ InU(e.u) THEN [st EXCEPT ![e.u] = "in_progress"]
              ELSE IF e.e = "tx" /\ e.op = "check_in" /\ InU(e.u) THEN [st EXCEPT ![e.u] = e.st]
              ELSE IF e.e = "tx" /\ e.op = "release"
              THEN [u \in URLs |-> IF st[u] = "in_progress" THEN "todo" ELSE st[u]]
              ELSE IF e.e = "tx" /\ e.op = "remove_many"
              THEN [u \in URLs |-> IF u \in Range(e.urls) THEN "none" ELSE st[u]]
              ELSE st
     /\ try' = IF e.e = "dbsync" THEN [u \in URLs |-> IF e.tr[u] < 9 THEN e.tr[u] ELSE 9]
               ELSE IF e.e = "tx" /\ e.op = "check_in" /\ InU(e.u) /\ e.inc THEN [try EXCEPT ![e.u] = Cap(@)] ELSE try
     /\ lvl' = IF e.e = "dbsync" THEN [u \in URLs |-> e.lv[u]]
               ELSE IF e.e = "tx" /\ e.op = "add_many"
               THEN [u \in URLs |-> IF u \in Range(e.new) /\ st[u] = "none"
                                    THEN e.levels[CHOOSE i \in DOMAIN e.urls : e.urls[i] = u] ELSE lvl[u]]
               ELSE lvl
     \* ---- visits and requests
     /\ vreq' = IF e.e = "vbegin" /\ InU(e.u) THEN [vreq EXCEPT ![e.u] = 0]
                ELSE IF e.e = "req" /\ e.kind # "robots" /\ InU(e.item) THEN [vreq EXCEPT ![e.item] = Cap(@)]
                ELSE vreq
     /\ vtry' = IF e.e = "vbegin" /\ InU(e.u) THEN [vtry EXCEPT ![e.u] = try[e.u]] ELSE vtry
     /\ req' = IF e.e = "req" /\ e.kind # "robots" /\ InU(e.u) THEN [req EXCEPT ![run][e.u] = Cap(@)] ELSE req
     /\ n416' = IF e.e = "resp" /\ e.cls = "r416" /\ InU(e.u) /\ run = 2 THEN [n416 EXCEPT ![e.u] = Cap(@)] ELSE n416
     /\ UNCHANGED <<pend, mayreq, mayreqNF, expected>>
     /\ robotsDone' = IF e.e = "start" THEN [h \in Hosts |-> FALSE]   \* the pool does not survive a restart
                      ELSE IF e.e = "resp" /\ e.cls \in {"robots200", "robots404"} /\ e.h \in Hosts
                      THEN [robotsDone EXCEPT ![e.h] = TRUE]
                      ELSE robotsDone
     /\ robotsAsked' = robotsAsked
     \* the first violated clause of the property being checked (Focus) is kept; a clause of another property
     \* seen earlier does not hide it
     /\ LET nv == IF e.e = "req" THEN ReqViol(e)
                  ELSE IF e.e = "exit" THEN ExitViol(e)
                  ELSE IF e.e = "hang" THEN 14                          \* the crawl never terminated
                  ELSE IF e.e = "tx" /\ e.op = "check_in" /\ InU(e.u) /\ e.inc /\ O.tries > 0 /\ try[e.u] >= O.tries + 1
                  THEN 44
                  ELSE 0
            nv2 == IF e.e = "req" /\ nv # 0 /\ ~Own(nv) /\ ReqViolAll(e) \cap Focus # {}
                   THEN CHOOSE c \in ReqViolAll(e) \cap Focus : \A d \in ReqViolAll(e) \cap Focus : c <= d
                   ELSE nv
        IN viol' = IF viol # 0 /\ Own(viol) THEN viol
                   ELSE IF nv2 # 0 /\ (Own(nv2) \/ viol = 0) THEN nv2
                   ELSE viol

MSpec == MInit /\ [][MNext]_mvars

ASSUME \A i \in 1..(2 * NT) : TLCSet(i, 0)

Record ==
  /\ IF TLCGet(tid) < l THEN TLCSet(tid, l) ELSE TRUE
  /\ IF viol # 0 /\ (TLCGet(NT + tid) = 0 \/ (TLCGet(NT + tid) \div 100000) # viol)
     THEN TLCSet(NT + tid, viol * 100000 + l) ELSE TRUE

Post == PrintT(<<"VERDICTS_BEGIN",
                 [i \in 1..NT |-> <<TLCGet(i) - 1, TLCGet(NT + i) \div 100000, TLCGet(NT + i) % 100000>>],
                 "VERDICTS_END">>)
=============================================================================
