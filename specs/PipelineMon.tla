---------------------------- MODULE PipelineMon ----------------------------
(***************************************************************************)
(* Observation monitor for C13: folds the events recorded from the real    *)
(* pipeline into the observation variables of PipelineProps and evaluates  *)
(* every property clause at every step.  No assumption about internals:    *)
(* this is what decides VIOLATION (the strict spec decides DRIFT).         *)
(***************************************************************************)
EXTENDS PipelineProps, Json, IOUtils, TLCExt

Batch == JsonDeserialize(IOEnv.TRACE_FILE)
NT    == Len(Batch)

VARIABLES tid, l, conc, running, hung
mvars == <<began, ended, orderOK, supplied, returned, lateBegin, raised, stops, tid, l, conc, running, hung>>

Ev  == Batch[tid].ev
Cur == Ev[l]
Inc(n) == IF n < 2 THEN n + 1 ELSE n

MInit ==
  /\ tid \in 1..NT /\ l = 1
  /\ began = [j \in Tasks |-> [i \in Items |-> 0]]
  /\ ended = [j \in Tasks |-> [i \in Items |-> 0]]
  /\ orderOK = TRUE /\ supplied = {} /\ returned = "no" /\ lateBegin = FALSE /\ raised = FALSE /\ stops = 0
  /\ conc = Batch[tid].c0 /\ running = TRUE /\ hung = "no"

InDom(j, i) == j \in Tasks /\ i \in Items

MNext ==
  /\ l <= Len(Ev) /\ l' = l + 1 /\ UNCHANGED tid
  /\ LET e == Cur IN
     /\ supplied' = IF e.e = "src" /\ e.k = "item" THEN supplied \cup {e.v} ELSE supplied
     /\ raised' = (raised \/ (e.e = "src" /\ e.k = "raise") \/ (e.e = "end" /\ ~e.ok))
     /\ began' = IF e.e = "begin" /\ InDom(e.j, e.i) THEN [began EXCEPT ![e.j][e.i] = Inc(@)] ELSE began
     \* an item outside the domain counts as "not supplied": flagged through orderOK
     /\ orderOK' = IF e.e = "begin"
                   THEN orderOK /\ InDom(e.j, e.i) /\ (e.j = 1 \/ ended[e.j - 1][e.i] >= 1)
                   ELSE orderOK
     /\ lateBegin' = (lateBegin \/ (e.e = "begin" /\ e.j = 1 /\ stops > 0))
     /\ ended' = IF e.e = "end" /\ e.ok /\ InDom(e.j, e.i) THEN [ended EXCEPT ![e.j][e.i] = Inc(@)] ELSE ended
     /\ stops' = IF e.e = "stop" /\ e.ext THEN stops + 1 ELSE stops
     /\ running' = IF e.e = "stop" THEN FALSE ELSE running
     /\ conc' = IF e.e = "setc" THEN e.c ELSE conc
     /\ returned' = IF e.e = "ret" THEN (IF e.v \in {"ok", "error"} THEN e.v ELSE "crash") ELSE returned
     /\ hung' = IF e.e = "hang"
                THEN (IF conc = 0 /\ stops = 0 /\ ~raised /\ running /\ ~e.busy THEN "legit" ELSE "bad")
                ELSE hung

MSpec == MInit /\ [][MNext]_mvars

NoHangObs  == hung # "bad"
NoCrashObs == returned # "crash"
\* a task never ends without having begun
EndAfterBegin == \A j \in Tasks, i \in Items : ended[j][i] <= began[j][i]

ASSUME \A i \in 1..(2 * NT) : TLCSet(i, 0)

BadClause ==
  IF ~AtMostOnce THEN 1 ELSE IF ~InOrder THEN 2 ELSE IF ~OnlySupplied THEN 3
  ELSE IF ~ExactlyOnceIfNoStop THEN 4 ELSE IF ~AllSuppliedIfNoStop THEN 5
  ELSE IF ~NoWorkAfterStop THEN 6 ELSE IF ~ErrorSurfaces THEN 7
  ELSE IF ~NoHangObs THEN 9 ELSE IF ~NoCrashObs THEN 10 ELSE IF ~EndAfterBegin THEN 11 ELSE IF ~NoOrphanWork THEN 12 ELSE 0

Record ==
  /\ IF TLCGet(tid) < l THEN TLCSet(tid, l) ELSE TRUE
  /\ IF BadClause # 0 /\ TLCGet(NT + tid) = 0 THEN TLCSet(NT + tid, BadClause * 100000 + l) ELSE TRUE

Post == PrintT(<<"VERDICTS_BEGIN",
                 [i \in 1..NT |-> <<TLCGet(i) - 1, TLCGet(NT + i) \div 100000, TLCGet(NT + i) % 100000>>],
                 "VERDICTS_END">>)
=============================================================================
