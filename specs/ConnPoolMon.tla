---------------------------- MODULE ConnPoolMon ----------------------------
(***************************************************************************)
(* Observation monitor for C12: folds the events recorded from the real    *)
(* ConnectionPool (and the projection of its public state logged with      *)
(* every event) into the observation variables of ConnPoolProps and        *)
(* evaluates every property clause at every step.  No assumption about     *)
(* internals (locks, program counters): this decides VIOLATION; the strict *)
(* spec ConnPoolTrace decides DRIFT.                                       *)
(*                                                                         *)
(* Event record: e (kind), c (client), k (key), x (connection), ok, mode,  *)
(* cl, r (release task), st, why, and the projection after the event:      *)
(* p[k] = [pr, rd, bz, w, lk], dd (closed pooled/held connections), gl.    *)
(***************************************************************************)
EXTENDS ConnPoolProps, Json, IOUtils, TLCExt

Batch == JsonDeserialize(IOEnv.TRACE_FILE)
NT    == Len(Batch)

VARIABLES tid, l,
          cancelled,   \* clients whose task was cancelled by the environment
          rconn,       \* [release task -> connection] for pending no_wait_release tasks (0: none)
          relc,        \* [client -> connection] being given back by an awaited release() (0: none)
          bad,         \* first violated Mon-only clause (0: none)
          exl,         \* [connection -> line at which the remote end ended it while it was idle (0: not)]
          relL,        \* [client -> line at which its awaited release() began]
          rL           \* [release task -> line at which it was created]
mvars == <<present, ready, busy, waiters, cstat, holders, inAcq, inRel, rpend, owed, quiet, tid, l, cancelled, rconn, relc, bad,
           exl, relL, rL>>

Ev  == Batch[tid].ev
Cur == Ev[l]
ToSet(s) == {s[i] : i \in DOMAIN s}
CONSTANT RMax   \* release-task numbers used in the batch
RIds == 1..RMax

MInit ==
  /\ tid \in 1..NT /\ l = 1
  /\ present = [k \in Keys |-> FALSE] /\ ready = [k \in Keys |-> {}] /\ busy = [k \in Keys |-> {}]
  /\ waiters = [k \in Keys |-> 0] /\ cstat = [x \in Conns |-> "dn"]
  /\ holders = [x \in Conns |-> {}] /\ inAcq = [c \in Clients |-> 0] /\ inRel = [c \in Clients |-> FALSE]
  /\ rpend = {} /\ owed = {} /\ quiet = TRUE
  /\ cancelled = {} /\ rconn = [r \in RIds |-> 0] /\ relc = [c \in Clients |-> 0] /\ bad = 0
  /\ exl = [x \in Conns |-> 0] /\ relL = [c \in Clients |-> 0] /\ rL = [r \in RIds |-> 0]

IdleNow(x) == \E k \in Keys : x \in ready[k]

MNext ==
  /\ l <= Len(Ev) /\ l' = l + 1 /\ UNCHANGED tid
  /\ LET e  == Cur
         P  == e.p
         dd == ToSet(e.dd)
         rd2 == [k \in Keys |-> ToSet(P[k].rd) \cap Conns]
     IN
     /\ present' = [k \in Keys |-> P[k].pr]
     /\ ready'   = rd2
     /\ busy'    = [k \in Keys |-> ToSet(P[k].bz) \cap Conns]
     /\ waiters' = [k \in Keys |-> P[k].w]
     /\ cstat'   = [x \in Conns |->
                      IF x \notin dd THEN "up"
                      ELSE IF e.e = "kill" /\ e.x = x /\ IdleNow(x) THEN "ex"
                      \* a release() that began after the connection was ended has completed: its clean() has run, the
                      \* excuse is over (a connection reset by the peer is as dead as one closed in good order)
                      ELSE IF cstat[x] = "ex" /\ exl[x] > 0
                              /\ \/ (e.e = "reld" /\ relL[e.c] > exl[x])
                                 \/ (e.e = "rtask" /\ e.r \in RIds /\ rL[e.r] > exl[x]) THEN "dn"
                      ELSE IF cstat[x] = "ex" /\ IdleNow(x) /\ (\E k \in Keys : x \in rd2[k]) THEN "ex"
                      ELSE "dn"]
     /\ holders' = IF e.e = "got" /\ e.x \in Conns THEN [holders EXCEPT ![e.x] = @ \cup {e.c}]
                   ELSE IF e.e = "rel" /\ e.x \in Conns THEN [holders EXCEPT ![e.x] = @ \ {e.c}]
                   ELSE holders
     /\ inAcq'   = IF e.e = "start" THEN [inAcq EXCEPT ![e.c] = e.k]
                   ELSE IF e.e \in {"got", "acqx"} THEN [inAcq EXCEPT ![e.c] = 0]
                   ELSE inAcq
     /\ inRel'   = IF e.e = "rel" /\ e.mode = "a" THEN [inRel EXCEPT ![e.c] = TRUE]
                   ELSE IF e.e \in {"reld", "relx"} THEN [inRel EXCEPT ![e.c] = FALSE]
                   ELSE inRel
     /\ rpend'   = IF e.e = "rel" /\ e.mode = "n" THEN rpend \cup {e.r}
                   ELSE IF e.e = "rtask" THEN rpend \ {e.r}
                   ELSE rpend
     /\ rconn'   = IF e.e = "rel" /\ e.mode = "n" /\ e.r \in RIds THEN [rconn EXCEPT ![e.r] = e.x]
                   ELSE IF e.e = "rtask" /\ e.r \in RIds THEN [rconn EXCEPT ![e.r] = 0]
                   ELSE rconn
     /\ relc'    = IF e.e = "rel" /\ e.mode = "a" THEN [relc EXCEPT ![e.c] = e.x]
                   ELSE IF e.e \in {"reld", "relx"} THEN [relc EXCEPT ![e.c] = 0]
                   ELSE relc
     /\ exl'     = [x \in Conns |-> IF e.e = "kill" /\ e.x = x /\ IdleNow(x) /\ x \in dd THEN l
                                     ELSE IF x \notin dd THEN 0 ELSE exl[x]]
     /\ relL'    = IF e.e = "rel" /\ e.mode = "a" THEN [relL EXCEPT ![e.c] = l] ELSE relL
     /\ rL'      = IF e.e = "rel" /\ e.mode = "n" /\ e.r \in RIds THEN [rL EXCEPT ![e.r] = l] ELSE rL
     /\ owed'    = ({rconn'[r] : r \in RIds} \cup {relc'[c] : c \in Clients}) \ {0}
     /\ quiet'   = (e.e \in {"quiet", "end"})
     /\ cancelled' = IF e.e = "cancel" THEN cancelled \cup {e.c} ELSE cancelled
     /\ bad' = IF bad # 0 THEN bad
               \* the event loop itself died / the pool kept the CPU forever
               ELSE IF e.e = "crash" THEN 20
               \* acquire()/release() raised something that is not the caller's own cancellation
               ELSE IF e.e \in {"acqx", "relx"} /\ e.why = "error" THEN 21
               ELSE IF e.e \in {"acqx", "relx"} /\ e.why = "cancel" /\ e.c \notin cancelled THEN 22
               \* the counter went below zero
               ELSE IF \E k \in Keys : P[k].wneg THEN 23
               \* at the end of the run (every client task is over or idle) a connection is still handed out:
               \* its session never returned it
               ELSE IF e.e = "end" /\ \E x \in Conns : holders[x] # {} THEN 24
               ELSE 0

MSpec == MInit /\ [][MNext]_mvars

ASSUME \A i \in 1..(2 * NT) : TLCSet(i, 0)

BadClause ==
  IF ~Mutex THEN 1 ELSE IF ~HeldBusy THEN 2 ELSE IF ~Disjoint THEN 3 ELSE IF ~Bound THEN 4
  ELSE IF ~WaitersAccounted THEN 5 ELSE IF ~BusyAccounted THEN 6 ELSE IF ~WaiterServed THEN 7
  ELSE IF ~ReleaseCompletes THEN 8 ELSE IF ~NoLeak THEN 9 ELSE bad

Record ==
  /\ IF TLCGet(tid) < l THEN TLCSet(tid, l) ELSE TRUE
  /\ IF BadClause # 0 /\ TLCGet(NT + tid) = 0 THEN TLCSet(NT + tid, BadClause * 100000 + l) ELSE TRUE

Post == PrintT(<<"VERDICTS_BEGIN",
                 [i \in 1..NT |-> <<TLCGet(i) - 1, TLCGet(NT + i) \div 100000, TLCGet(NT + i) % 100000>>],
                 "VERDICTS_END">>)
=============================================================================
