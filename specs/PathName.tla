------------------------------ MODULE PathName ------------------------------
(***************************************************************************)
(* C15: downloaded files are always written inside the download directory. *)
(*                                                                         *)
(* Transcription of wpull/path.py (PathNamer.get_filename, url_to_dir_parts,*)
(* url_to_filename, safe_filename, parse_content_disposition) and of the   *)
(* path choice of wpull/writer.py (BaseFileWriterSession), the property    *)
(* predicate Contained, and the input space (URLs x naming configurations  *)
(* x Content-Disposition values).  No variables: shared by PathNameGen     *)
(* (generator + design check), PathNameMon (Contained on the REAL paths:   *)
(* VIOLATION) and PathNameTrace (real path = model path: DRIFT).           *)
(* Text = sequences of code points (UrlNorm.tla).                          *)
(***************************************************************************)
EXTENDS UrlNorm

CONSTANT FixWinTail   \* TRUE: windows mode escapes a trailing '.' / ' ' instead of raising (finding 22 repaired)

WILD == 2000000       \* one character of the SHA-1 digest (not computed by the model)

tINDEX == S("index.html")   tLISTING == S(".listing")   tFTPs == S("ftp")
tE2E == S("%2E")            tE2E2E == S("%2E%2E")

-----------------------------------------------------------------------------
(* urllib.parse.urlsplit on a normalised URL: scheme "://" netloc path ["?" query] *)

UQuery(u) == LET r == RestOf(u) i == Find(r, QM) IN IF i = 0 THEN <<>> ELSE From(r, i + 1)
LowerZone(h) == LET pt == Partition(h, PCT) IN LowerS(pt[1]) \o (IF pt[2] THEN <<PCT>> \o pt[3] ELSE <<>>)
\* SplitResult.hostname / .port: [h, p]  (p = port text, <<>> = None)
UHostPort(netloc) ==
  LET hi == From(netloc, RFind(netloc, AT) + 1)
      ob == Find(hi, LBR) IN
  IF ob > 0
  THEN LET br == From(hi, ob + 1)
           pb == Partition(br, RBR)
           pp == Partition(pb[3], COLON) IN
       [h |-> LowerZone(pb[1]), p |-> pp[3]]
  ELSE LET pt == Partition(hi, COLON) IN [h |-> LowerZone(pt[1]), p |-> pt[3]]
PortNum(p) == IF Len(p) = 0 \/ \E i \in 1..Len(p) : ~IsDigit(p[i]) THEN 0
              ELSE LET v == FoldDigits(p, 10, NumZero) IN v.b[1] + 256 * v.b[2]

\* path.py url_to_filename
UrlToFilename(u, index, alt) ==
  LET segs == Split(PathOf(u), SLASH)
      last == segs[Len(segs)]
      fn   == IF Len(last) = 0 THEN index ELSE last
      q    == UQuery(u) IN
  IF Len(q) > 0 THEN fn \o <<IF alt THEN AT ELSE QM>> \o q ELSE fn

\* path.py url_to_dir_parts
UrlToDirParts(u, proto, hostn, alt) ==
  LET hp == UHostPort(AuthOf(u))
      pn == PortNum(hp.p)
      ps == SelectSeq(Split(PathOf(u), SLASH), LAMBDA x : Len(x) > 0)
      parts == (IF proto THEN <<SchemeOf(u)>> ELSE <<>>)
               \o (IF hostn THEN <<hp.h \o (IF pn # 0 THEN <<IF alt THEN PLUS ELSE COLON>> \o Dec(pn) ELSE <<>>)>> ELSE <<>>)
               \o ps IN
  IF ~LastIs(u, SLASH) /\ Len(parts) > 0 THEN SubSeq(parts, 1, Len(parts) - 1) ELSE parts

-----------------------------------------------------------------------------
(* path.py safe_filename: [ok, v]; ok = FALSE is the ValueError of windows mode *)

WinSet == {92, 124, 47, 58, 63, 34, 42, 60, 62}        \* \|/:?"*<>
UpperU(c) == IF c = EAC THEN 201 ELSE IF c = FWX THEN 65336 ELSE UpperC(c)
LowerU(c) == LowerC(c)
\* one character through PercentEncoder.quote (UTF-8 bytes; a non-ASCII character is escaped byte by byte or not at all)
\* control characters: C0, DEL and C1 (U+0000..U+001F, U+007F..U+009F)
IsCtl(c) == c <= 31 \/ c \in 127..159
SafeChar(c, cfg) ==
  IF c < 128
  THEN (IF (cfg.os = "unix" /\ c = 47) \/ (cfg.nc /\ IsCtl(c)) \/ (cfg.os = "windows" /\ c \in WinSet) THEN PctByte(c) ELSE <<c>>)
  ELSE (IF cfg.asc \/ (cfg.nc /\ IsCtl(c))
        THEN LET bs == EncCp(c, "utf-8") IN Flat([i \in 1..Len(bs) |-> PctByte(bs[i])]) ELSE <<c>>)

RECURSIVE ByteLen(_)
ByteLen(s) == IF Len(s) = 0 THEN 0 ELSE Len(EncCp(s[1], "utf-8")) + ByteLen(Tail(s))
\* the longest prefix of s whose encoding has at most k octets
RECURSIVE BytePrefix(_, _)
BytePrefix(s, k) == IF Len(s) = 0 \/ Len(EncCp(s[1], "utf-8")) > k THEN <<>>
                    ELSE <<s[1]>> \o BytePrefix(Tail(s), k - Len(EncCp(s[1], "utf-8")))

SafeFilename(fn, cfg) ==
  LET n1 == IF fn = <<DOT>> THEN tE2E
            ELSE IF fn = <<DOT, DOT>> THEN tE2E2E
            ELSE Flat([i \in 1..Len(fn) |-> SafeChar(fn[i], cfg)])
      tail == cfg.os = "windows" /\ Len(n1) > 0 /\ n1[Len(n1)] \in {SPC, DOT}
  IN
  IF cfg.os = "windows" /\ Len(n1) = 0 THEN [ok |-> FALSE]               \* new_filename[-1]: IndexError
  ELSE IF tail /\ ~FixWinTail THEN [ok |-> FALSE]                        \* '{1:02X}'.format(.., str): ValueError
  ELSE
   LET n2 == IF tail THEN SubSeq(n1, 1, Len(n1) - 1) \o PctByte(n1[Len(n1)]) ELSE n1
       \* the length limit counts OCTETS of the encoded name (what the file system limits); the name is cut at a
       \* character boundary
       keep == IF cfg.ml > 8 THEN cfg.ml - 8 ELSE 0
       n3 == IF cfg.ml > 0 /\ ByteLen(n2) > cfg.ml
             THEN BytePrefix(n2, keep) \o [i \in 1..8 |-> WILD]
             ELSE n2
       n4 == IF cfg.cs = "lower" THEN [i \in 1..Len(n3) |-> LowerU(n3[i])]
             ELSE IF cfg.cs = "upper" THEN [i \in 1..Len(n3) |-> UpperU(n3[i])] ELSE n3
   IN [ok |-> TRUE, v |-> n4]

\* PathNamer.get_filename: [ok, parts]   (the components below the root)
GetFilename(u, cfg) ==
  LET alt  == cfg.os = "windows"
      ftp  == SchemeOf(u) = tFTPs
      dp0  == IF cfg.ud THEN UrlToDirParts(u, cfg.pr, cfg.hn, alt) ELSE <<>>
      dp   == IF Len(dp0) <= cfg.cut THEN <<>> ELSE SubSeq(dp0, cfg.cut + 1, Len(dp0))
      raw  == Append(dp, UrlToFilename(u, IF ftp THEN tLISTING ELSE tINDEX, alt))
      unq  == IF ftp THEN [i \in 1..Len(raw) |-> Unquote(raw[i], "utf-8")] ELSE raw
      sf   == [i \in 1..Len(unq) |-> SafeFilename(unq[i], cfg)]
  IN IF \E i \in 1..Len(sf) : ~sf[i].ok THEN [ok |-> FALSE] ELSE [ok |-> TRUE, parts |-> [i \in 1..Len(sf) |-> sf[i].v]]

-----------------------------------------------------------------------------
(* path.py parse_content_disposition: [some, v]                            *)
(* the header is  PREFIX value  with PREFIX = "attachment; filename="      *)

IsReSpace(c) == c \in {9, 10, 11, 12, 13, 28, 29, 30, 31, 32, 133, 160, 12288}     \* \s
IsQuote(c) == c \in {34, 39}
ReplaceBsQuote(s) ==     \* str.replace('\\"', '"')
  LET RECURSIVE R(_)
      R(t) == IF Len(t) = 0 THEN <<>>
              ELSE IF Len(t) >= 2 /\ t[1] = BSL /\ t[2] = 34 THEN <<34>> \o R(From(t, 3))
              ELSE <<t[1]>> \o R(Tail(t))
  IN R(s)
ParseCDValue(v) ==
  \* 'filename\s*=\s*(.+)': white space is skipped but one character is left for (.+)
  LET ns == {i \in 1..Len(v) : ~IsReSpace(v[i])}
      g  == IF Len(v) = 0 THEN <<>> ELSE IF ns = {} THEN <<v[Len(v)]>> ELSE From(v, MinOf(ns)) IN
  IF Len(g) = 0 THEN [some |-> FALSE]
  ELSE IF IsQuote(g[1])
  THEN LET cl == {i \in 3..Len(g) : g[i] = g[1]} IN        \* (.)(.+)(?!\\)\1 : greedy, last closing quote
       IF cl = {} THEN [some |-> FALSE] ELSE [some |-> TRUE, v |-> ReplaceBsQuote(Slice(g, 2, MaxOf(cl) - 1))]
  ELSE [some |-> TRUE, v |-> Strip(Partition(g, 59)[1])]

\* writer.py: process_request (get_filename) then process_response (_rename_with_content_disposition)
SessionParts(u, cfg, cd) ==
  LET g == GetFilename(u, cfg) IN
  IF ~g.ok THEN g
  ELSE LET p == ParseCDValue(cd) IN
       IF ~p.some \/ Len(p.v) = 0 \/ SchemeOf(u) = tFTPs THEN g
       ELSE LET s == SafeFilename(p.v, cfg) IN
            IF ~s.ok THEN [ok |-> FALSE]
            ELSE [ok |-> TRUE, parts |-> SubSeq(g.parts, 1, Len(g.parts) - 1) \o <<s.v>>]

-----------------------------------------------------------------------------
(* The property.                                                            *)
SepSet(os) == IF os = "windows" THEN {47, 92} ELSE {47}
Contained(parts, os, nc) ==
  /\ Len(parts) > 0
  /\ \A i \in 1..Len(parts) :
       LET p == parts[i] IN
       /\ Len(p) > 0 /\ p # <<DOT>> /\ p # <<DOT, DOT>>
       /\ \A j \in 1..Len(p) : p[j] \notin SepSet(os) /\ (nc => ~(p[j] <= 31 \/ p[j] \in 127..159))

\* model path = real path, the digest characters being free (hex digits of either case)
Matches(mp, rp) == /\ Len(mp) = Len(rp)
                   /\ \A i \in 1..Len(mp) : /\ Len(mp[i]) = Len(rp[i])
                                             /\ \A j \in 1..Len(mp[i]) : mp[i][j] = rp[i][j] \/ (mp[i][j] = WILD /\ IsHex(rp[i][j]))

-----------------------------------------------------------------------------
(* The input space.                                                         *)

Cfg(ud, cut, pr, hn, os, nc, asc, cs, ml) ==
  [ud |-> ud, cut |-> cut, pr |-> pr, hn |-> hn, os |-> os, nc |-> nc, asc |-> asc, cs |-> cs, ml |-> ml]
OsTypes == <<"unix", "windows">>
Cases   == <<"none", "lower", "upper">>
MaxLens == <<0, 1, 8, 9, 20>>
Bools   == <<FALSE, TRUE>>
\* 120 sanitiser configurations (structure fixed: no directories)
SanCfgs == [n \in 1..120 |->
              LET k == n - 1 IN
              Cfg(FALSE, 0, FALSE, FALSE, OsTypes[(k % 2) + 1], Bools[((k \div 2) % 2) + 1], Bools[((k \div 4) % 2) + 1],
                  Cases[((k \div 8) % 3) + 1], MaxLens[(k \div 24) + 1])]
\* 64 structural configurations (sanitiser at its defaults)
StructCfgs == [n \in 1..64 |->
                 LET k == n - 1 IN
                 Cfg(Bools[(k % 2) + 1], (k \div 2) % 4, Bools[((k \div 8) % 2) + 1], Bools[((k \div 16) % 2) + 1],
                     OsTypes[(k \div 32) + 1], TRUE, TRUE, "none", 0)]
\* 16 configurations for the Content-Disposition cluster (directories on)
CDCfgs == [n \in 1..16 |->
             LET k == n - 1 IN
             Cfg(TRUE, 0, FALSE, TRUE, OsTypes[(k % 2) + 1], Bools[((k \div 2) % 2) + 1], Bools[((k \div 4) % 2) + 1],
                 "none", MaxLens[IF (k \div 8) = 0 THEN 1 ELSE 3])]

\* ---- path parts for safe_filename: all strings <= 3 over 10 classes + catalogue
PartClasses == <<97, DOT, SLASH, BSL, SPC, 0, EAC, COLON, QM, 65>>
PartCat == << S("."), S(".."), S("..."), S("a."), S("a "), S(". "), S(" ."), S("..a"), S("a/.."), S("../x"), S("..\\x"),
              S("/"), S("\\"), S("//"), Rep(97, 8), Rep(97, 9), Rep(97, 20), Rep(97, 21), Rep(97, 7) \o <<DOT>>,
              Rep(97, 8) \o <<DOT>>, Rep(97, 7) \o <<EAC>>, Rep(97, 19) \o <<SLASH>>, Rep(DOT, 9), Rep(97, 300),
              S("%2e%2e"), S("%2F"), S("CON"), <<97, TAB, 98>>, <<127>>, <<128>>, <<97, 13, 10, 98>>, <<FWX>>,
              S("a*b|c<d>e\"f"),
              \* a control character at the very end / very start of an otherwise plain name
              <<97, 10>>, <<97, 10, 10>>, <<10>>, <<97, 13>>, <<97, TAB>>, <<10, 97>>, <<97, 31>>, <<97, 46, 98, 10>>,
              <<65, 45, 95, 49, 10>>, <<97, 0>>, <<97, 127>> >>

\* ---- URLs for get_filename: scheme x (host, query) x path of <= 3 catalogue segments
NameSegs == << S("a"), S("A"), S(".."), <<>>, S("%2e%2e"), S("%2E"), S("%2F"), S("%2f..%2f"), S("a%20"), S("a."),
               S("%00"), S("a\\b"), S("%5C"), <<EAC>>, S("a b"), S("a%0A") >>
NameSchemes == << S("http://"), S("ftp://") >>
NameHostQuery == << <<S("h"), <<>>>>, <<S("h"), S("?a/b")>>, <<S("a.x.:81"), <<>>>>, <<S("[::1]:81"), S("?../..%2F%2e")>> >>

\* ---- Content-Disposition values: strings <= 4 over 10 symbols (".." is one symbol) + catalogue
CDSymbols == << <<97>>, <<DOT>>, <<SLASH>>, <<BSL>>, <<34>>, <<39>>, <<59>>, <<61>>, <<SPC>>, <<0>>, <<DOT, DOT>> >>
CDCat == << S("\"a/b\""), S("\"../../x\""), S("\"..\\..\\x\""), S("'..'"), S("\"..\""), S("\".\""), S("..;x"), S("\"a"),
            S("\"a\" ; x=\"b\""), S("\"\\\"\""), S("a b.txt"), S("\"a.\""), S("\"a \""), S("/etc/passwd"),
            S("\"/etc/passwd\""), Rep(97, 300), <<34, EAC, 34>>, S("\"a\\b\"") >>
CDPrefix == S("attachment; filename=")
CDUrls == << S("http://h/d/f"), S("http://h/"), S("ftp://h/d/f") >>
=============================================================================
