------------------------------ MODULE ConnPool ------------------------------
(***************************************************************************)
(* Implementation-shaped model of wpull/network/pool.py                    *)
(*   ConnectionPool.acquire / release / no_wait_release /                  *)
(*   _process_no_wait_releases / clean   and   HostPool.acquire / release / *)
(*   clean                                                                  *)
(* as they execute on asyncio (CPython 3.12.1).                             *)
(*                                                                         *)
(* Scheduling is cooperative.  One action (RunTask) = the event loop        *)
(* resumes one runnable task, which executes micro-steps (operator Micro:   *)
(* one per statement group of the Python source, written as functions on a  *)
(* snapshot record of the state) until it parks on an unfinished future or  *)
(* ends: exactly one await-free block.  The loop may pick any runnable task *)
(* (a superset of the FIFO ready queue); the environment acts between       *)
(* blocks.  Properties are stated over observation variables               *)
(* (ConnPoolProps) and evaluated at every block boundary.                   *)
(*                                                                         *)
(* asyncio.Lock (3.12): acquire() takes the fast path only when the lock   *)
(* is free and every queued waiter is cancelled; release() wakes the first *)
(* waiter if its future is not done; a waiter that is cancelled while the  *)
(* lock is free wakes the next one.  asyncio.Condition.wait(): release the *)
(* lock, park, and RE-ACQUIRE the lock - also when cancelled, swallowing   *)
(* further cancellations while it re-acquires - then raise.  notify(1)     *)
(* resolves the first waiter whose future is not done; a waiter cancelled  *)
(* after it was notified does not pass the notification on (3.12.1).       *)
(* Task.cancel(): a parked task gets CancelledError at its await; a task   *)
(* awaiting another task cancels THAT task.                                *)
(*                                                                         *)
(* Lock 0 is ConnectionPool._host_pools_lock, lock k is HostPool k._lock.  *)
(***************************************************************************)
EXTENDS ConnPoolProps

CONSTANTS MaxCount,   \* ConnectionPool max_count (force-clean threshold)
          Uses,       \* acquire/release rounds per client
          MaxCancel,  \* budget of task cancellations
          MaxKill,    \* budget of remote closes
          Modes,      \* subset of {"a","n"}: awaited release / no_wait_release
          FixCancel,  \* TRUE: repaired cancellation handling in HostPool.acquire / ConnectionPool.acquire
          FixShield   \* TRUE: _process_no_wait_releases shields the release task it awaits

R       == N + 1               \* release-task slots (a slot is reused once the task is finished and forgotten)
Threads == 1..(N + R)
RTs     == (N + 1)..(N + R)
Locks   == 0..H

VARIABLES
  lock,     \* [Locks -> [held: BOOLEAN, q: Seq([t, s])]]   s: "p" pending, "w" woken, "x" cancelled
  cond,     \* [Keys -> Seq([t, s])]                        s: "p" pending, "n" notified, "x" cancelled
  pc, tk, tc, ck, tq, tforce,   \* per task: program counter, key, connection, key being cleaned, keys left, force
  cflag,    \* Task._must_cancel: CancelledError is thrown at the next resumption
  cwc,      \* Condition.wait(): local `cancelled`
  why,      \* kind of exception that is ending the task ("" | "cancel" | "error"), inside a block only
  join,     \* [Clients -> release task awaited in _process_no_wait_releases, or 0]
  rtasks,   \* ConnectionPool._release_tasks
  uses, ncancel, nkill

pvars  == <<present, ready, busy, waiters, cstat>>
svars  == <<lock, cond>>
tvars  == <<pc, tk, tc, ck, tq, tforce, cflag, cwc, why, join>>
bvars  == <<uses, ncancel, nkill>>
ovars  == <<holders, inAcq, inRel, rpend, owed, quiet>>
vars   == <<pvars, svars, tvars, rtasks, bvars, ovars>>

-----------------------------------------------------------------------------
(* program counters                                                         *)
LockWait  == {"a_l1w", "a_l2w", "h_acqw", "h_cwlw", "r_w", "c_lw", "c_pw"}
Parked    == LockWait \cup {"h_cw", "a_join"}
EnvWait   == {"idle", "use"}
Terminal  == {"done", "cancelled", "errored"}
NotYet    == {"unused"}
Running   == {"a_drain", "a_l1", "a_l1cs", "h_acq", "h_loop", "h_cwl", "h_got", "a_l2", "a_l2cs", "a_ret",
              "r_start", "r_cs", "c_l", "c_loop0", "c_loop", "c_cs", "r_ret",
              "x_cw", "x_hp", "x_clean", "x_fin", "x_rfin", "new", "xnew"}
AcqPcs    == {"a_drain", "a_join", "a_l1w", "h_acqw", "h_cw", "h_cwlw", "a_l2w"}   \* at block boundaries
RelPcs    == {"r_start", "r_w", "c_lw", "c_pw"}

IsClient(t) == t <= N

-----------------------------------------------------------------------------
(* asyncio.Lock / asyncio.Condition as data                                 *)
NoLive(q)     == \A i \in DOMAIN q : q[i].s = "x"
CanFast(L)    == ~L.held /\ NoLive(L.q)
Enq(q, t)     == Append(q, [t |-> t, s |-> "p"])
WakeFirst(q)  == IF q # <<>> /\ q[1].s = "p" THEN [q EXCEPT ![1].s = "w"] ELSE q
Released(L)   == [held |-> FALSE, q |-> WakeFirst(L.q)]
Without(q, t) == SelectSeq(q, LAMBDA e : e.t # t)
Pos(q, t)     == CHOOSE i \in DOMAIN q : q[i].t = t
StatIn(q, t)  == q[Pos(q, t)].s
SetStat(q, t, s) == [q EXCEPT ![Pos(q, t)].s = s]
\* a woken waiter takes the lock / a cancelled waiter leaves and, if the lock is free, wakes the next one
WokenTakes(L, t)   == [held |-> TRUE, q |-> Without(L.q, t)]
CancelLeaves(L, t) == LET q2 == Without(L.q, t) IN [held |-> L.held, q |-> IF L.held THEN q2 ELSE WakeFirst(q2)]
\* notify(1): the first waiter whose future is not done
NotifyOne(q) == IF \E i \in DOMAIN q : q[i].s = "p"
                THEN LET i == CHOOSE j \in DOMAIN q : q[j].s = "p" /\ \A j2 \in 1..(j - 1) : q[j2].s # "p"
                     IN [q EXCEPT ![i].s = "n"]
                ELSE q
EmptyLock == [held |-> FALSE, q |-> <<>>]
Min(S) == CHOOSE x \in S : \A y \in S : x <= y

-----------------------------------------------------------------------------
(* The state as a record, so that the statements of a block compose         *)
Snap == [present |-> present, ready |-> ready, busy |-> busy, waiters |-> waiters, cstat |-> cstat,
         lock |-> lock, cond |-> cond, pc |-> pc, tk |-> tk, tc |-> tc, ck |-> ck, tq |-> tq,
         tforce |-> tforce, cflag |-> cflag, cwc |-> cwc, why |-> why, join |-> join, rtasks |-> rtasks]

Install(S) ==
  /\ present' = S.present /\ ready' = S.ready /\ busy' = S.busy /\ waiters' = S.waiters /\ cstat' = S.cstat
  /\ lock' = S.lock /\ cond' = S.cond /\ pc' = S.pc /\ tk' = S.tk /\ tc' = S.tc /\ ck' = S.ck /\ tq' = S.tq
  /\ tforce' = S.tforce /\ cflag' = S.cflag /\ cwc' = S.cwc /\ why' = S.why /\ join' = S.join
  /\ rtasks' = S.rtasks

\* the lock a parked task is queued on
LockOf(S, t) == IF S.pc[t] \in {"a_l1w", "a_l2w", "c_lw"} THEN 0 ELSE IF S.pc[t] = "c_pw" THEN S.ck[t] ELSE S.tk[t]

UsedConns(S) == UNION {S.ready[k] \cup S.busy[k] : k \in Keys} \cup {S.tc[u] : u \in Threads}
Count(S) == LET RECURSIVE Sum(_)
                Sum(K) == IF K = {} THEN 0
                          ELSE LET k == Min(K) IN Cardinality(S.ready[k]) + Cardinality(S.busy[k]) + Sum(K \ {k})
            IN Sum({k \in Keys : S.present[k]})

\* try to take lock l: fast path, or queue up and park
TryLock(S, t, l, okpc, waitpc) ==
  IF CanFast(S.lock[l]) THEN [S EXCEPT !.lock[l].held = TRUE, !.pc[t] = okpc]
                        ELSE [S EXCEPT !.lock[l].q = Enq(@, t), !.pc[t] = waitpc]

\* the locals of a task that ended
Dead(S, t) == [S EXCEPT !.tk[t] = 0, !.tc[t] = 0, !.ck[t] = 0, !.tq[t] = {}, !.tforce[t] = FALSE,
                        !.why[t] = "", !.cwc[t] = FALSE]

\* where a task continues once it owns the lock it queued for / where CancelledError goes when raised at that await
AfterLock(p, c) ==
  CASE p = "a_l1w" -> "a_l1cs" [] p = "a_l2w" -> "a_l2cs" [] p = "h_acqw" -> "h_loop"
    [] p = "h_cwlw" -> (IF c THEN "x_cw" ELSE "h_loop")
    [] p = "r_w" -> "r_cs" [] p = "c_lw" -> "c_loop0" [] p = "c_pw" -> "c_cs"
AfterCancel(p) ==
  CASE p = "a_l1w" -> "x_fin" [] p = "a_l2w" -> "x_fin" [] p = "h_acqw" -> "x_hp"
    [] p = "h_cwlw" -> "h_cwl"          \* swallowed by Condition.wait(): try again
    [] p = "r_w" -> "x_rfin" [] p = "c_lw" -> "x_rfin" [] p = "c_pw" -> "x_clean"

-----------------------------------------------------------------------------
(* The loop resumes a task: first step of a block                           *)
Resume(S, t) ==
  LET p == S.pc[t] IN
  IF p \in LockWait                       \* Lock.acquire() continues after its future was resolved or cancelled
  THEN LET l == LockOf(S, t) IN
       IF StatIn(S.lock[l].q, t) = "x" \/ S.cflag[t]
       THEN [S EXCEPT !.lock[l] = CancelLeaves(@, t), !.pc[t] = AfterCancel(p), !.cflag[t] = FALSE,
                      !.cwc[t] = IF p = "h_cwlw" THEN TRUE ELSE @,
                      !.why[t] = IF p = "h_cwlw" THEN @ ELSE "cancel"]
       ELSE [S EXCEPT !.lock[l] = WokenTakes(@, t), !.pc[t] = AfterLock(p, S.cwc[t]), !.cflag[t] = FALSE]
  ELSE IF p = "h_cw"                      \* Condition.wait() continues: leave the waiter queue, go re-acquire the lock
  THEN LET k == S.tk[t] IN
       [S EXCEPT !.cond[k] = Without(@, t), !.cwc[t] = (StatIn(S.cond[k], t) = "x" \/ S.cflag[t]),
                 !.cflag[t] = FALSE, !.pc[t] = "h_cwl"]
  ELSE IF p = "a_join"                    \* `yield from release_task` continues
  THEN LET r == S.join[t] IN
       IF S.cflag[t] \/ S.pc[r] = "cancelled"
       THEN [S EXCEPT !.pc[t] = "x_fin", !.why[t] = "cancel", !.cflag[t] = FALSE, !.join[t] = 0]
       ELSE IF S.pc[r] = "errored"
       THEN [S EXCEPT !.pc[t] = "x_fin", !.why[t] = "error", !.join[t] = 0]
       ELSE [S EXCEPT !.pc[t] = "a_drain", !.join[t] = 0]
  ELSE S

-----------------------------------------------------------------------------
(* The statements.  Micro(S, t) = set of states after the next statement    *)
(* group of task t (a set because set.pop() and dict order are arbitrary).  *)
Micro(S, t) ==
  LET p == S.pc[t]
      k == S.tk[t]
      x == S.tc[t] IN
  CASE
  (* ---------------- ConnectionPool.acquire ---------------- *)
  \* _process_no_wait_releases: pop a release task; await it unless it is finished
     p = "a_drain" ->
       IF S.rtasks = {} THEN {[S EXCEPT !.pc[t] = "a_l1"]}
       ELSE {LET S1 == [S EXCEPT !.rtasks = @ \ {r}] IN
             IF S.pc[r] = "done" THEN S1
             ELSE IF S.pc[r] = "cancelled" THEN [S1 EXCEPT !.pc[t] = "x_fin", !.why[t] = "cancel"]
             ELSE IF S.pc[r] = "errored" THEN [S1 EXCEPT !.pc[t] = "x_fin", !.why[t] = "error"]
             ELSE [S1 EXCEPT !.pc[t] = "a_join", !.join[t] = r] : r \in S.rtasks}
  \* with (yield from self._host_pools_lock):
  [] p = "a_l1" ->
       {TryLock(S, t, 0, "a_l1cs", "a_l1w")}
  \*   create the host pool or count one more waiter; leave the with block
  [] p = "a_l1cs" ->
       {[S EXCEPT !.waiters[k] = IF S.present[k] THEN @ + 1 ELSE 1, !.present[k] = TRUE,
                  !.lock[0] = Released(@), !.pc[t] = "h_acq"]}
  (* ---------------- HostPool.acquire ---------------- *)
  \* yield from self._condition.acquire()
  [] p = "h_acq" ->
       {TryLock(S, t, k, "h_loop", "h_acqw")}
  \* while True: pop an idle connection / make a new one / wait on the condition (= release the lock and park)
  [] p = "h_loop" ->
       IF S.ready[k] # {}
       THEN {[S EXCEPT !.ready[k] = @ \ {y}, !.tc[t] = y, !.pc[t] = "h_got"] : y \in S.ready[k]}
       ELSE IF Cardinality(S.busy[k]) < M
       THEN IF Conns \ UsedConns(S) = {} THEN {}        \* id pool exhausted (CMax too small): no successor
            ELSE LET y == Min(Conns \ UsedConns(S)) IN
                 {[S EXCEPT !.tc[t] = y, !.cstat[y] = "dn", !.pc[t] = "h_got"]}
       ELSE {[S EXCEPT !.lock[k] = Released(@), !.cond[k] = Enq(@, t), !.pc[t] = "h_cw"]}
  \* Condition.wait(), finally: await self.acquire()  (in a loop that swallows cancellations)
  [] p = "h_cwl" ->
       {TryLock(S, t, k, IF S.cwc[t] THEN "x_cw" ELSE "h_loop", "h_cwlw")}
  \* self.busy.add(connection); self._condition.release(); back in ConnectionPool.acquire: connection.key = key
  [] p = "h_got" ->
       LET S1 == [S EXCEPT !.busy[k] = @ \cup {x}, !.lock[k] = Released(@)] IN
       IF FixCancel THEN {[S1 EXCEPT !.waiters[k] = @ - 1, !.pc[t] = "a_ret"]}   \* finally: waiters -= 1, no lock
                    ELSE {[S1 EXCEPT !.pc[t] = "a_l2"]}
  \* with (yield from self._host_pools_lock): self._host_pool_waiters[key] -= 1      (unrepaired code only)
  [] p = "a_l2" ->
       {TryLock(S, t, 0, "a_l2cs", "a_l2w")}
  [] p = "a_l2cs" ->
       {[S EXCEPT !.waiters[k] = @ - 1, !.lock[0] = Released(@), !.pc[t] = "a_ret"]}
  \* return connection: the client holds it from now on and waits for the environment
  [] p = "a_ret" ->
       {[S EXCEPT !.pc[t] = "use"]}
  (* ---------------- exceptions leaving acquire ---------------- *)
  \* CancelledError leaves Condition.wait() - the lock has been re-acquired.  Unrepaired: nobody releases it.
  \* Repaired: except: notify() (pass a possibly consumed notification on); finally: release()
  [] p = "x_cw" ->
       IF FixCancel
       THEN {[S EXCEPT !.cond[k] = NotifyOne(@), !.lock[k] = Released(@), !.pc[t] = "x_hp", !.why[t] = "cancel"]}
       ELSE {[S EXCEPT !.pc[t] = "x_hp", !.why[t] = "cancel"]}
  \* the exception passes through ConnectionPool.acquire.  Repaired: the waiter is un-counted, and a pool that it
  \* leaves behind empty and unwaited is dropped
  [] p = "x_hp" ->
       IF FixCancel
       THEN IF S.waiters[k] = 1 /\ S.ready[k] = {} /\ S.busy[k] = {} /\ ~S.lock[0].held
            THEN {[S EXCEPT !.waiters[k] = 0, !.present[k] = FALSE, !.lock[k] = EmptyLock, !.pc[t] = "x_fin"]}
            ELSE {[S EXCEPT !.waiters[k] = @ - 1, !.pc[t] = "x_fin"]}
       ELSE {[S EXCEPT !.pc[t] = "x_fin"]}
  \* the exception leaves clean(): the with block releases the pools lock
  [] p = "x_clean" ->
       {[S EXCEPT !.lock[0] = Released(@), !.pc[t] = "x_rfin"]}
  \* the task ends with the exception
  [] p \in {"x_fin", "x_rfin"} ->
       {[Dead(S, t) EXCEPT !.pc[t] = IF S.why[t] = "error" THEN "errored" ELSE "cancelled"]}
  (* ---------------- ConnectionPool.release (inline in a client, or as a no_wait_release task) ---------------- *)
  \* a release task that was cancelled before it ever ran
  [] p = "xnew" ->
       {[Dead(S, t) EXCEPT !.pc[t] = "cancelled"]}
  \* host_pool = self._host_pools[key]; HostPool.release: yield from self._condition.acquire()
  [] p \in {"r_start", "new"} ->
       IF ~S.present[k] THEN {[S EXCEPT !.pc[t] = "x_rfin", !.why[t] = "error"]}                  \* KeyError
       ELSE {TryLock(S, t, k, "r_cs", "r_w")}
  \*   busy.remove; ready.add; notify(); release;  force = self.count() > self._max_count
  [] p = "r_cs" ->
       IF x \notin S.busy[k] THEN {[S EXCEPT !.pc[t] = "x_rfin", !.why[t] = "error"]}             \* KeyError, lock kept
       ELSE LET S1 == [S EXCEPT !.busy[k] = @ \ {x}, !.ready[k] = @ \cup {x}, !.cond[k] = NotifyOne(@),
                                !.lock[k] = Released(@)] IN
            {[S1 EXCEPT !.tforce[t] = (Count(S1) > MaxCount), !.pc[t] = "c_l"]}
  \* ConnectionPool.clean: with (yield from self._host_pools_lock):
  [] p = "c_l" ->
       {TryLock(S, t, 0, "c_loop0", "c_lw")}
  \*   for key, pool in tuple(self._host_pools.items()):
  [] p = "c_loop0" ->
       {[S EXCEPT !.tq[t] = {j \in Keys : S.present[j]}, !.pc[t] = "c_loop"]}
  \*     yield from pool.clean(force):  with (yield from self._lock):
  [] p = "c_loop" ->
       IF S.tq[t] = {} THEN {[S EXCEPT !.lock[0] = Released(@), !.pc[t] = "r_ret"]}
       ELSE {TryLock([S EXCEPT !.tq[t] = @ \ {j}, !.ck[t] = j], t, j, "c_cs", "c_pw") : j \in S.tq[t]}
  \*       close and drop closed (or, forced, all) idle connections; drop the pool if nobody waits and it is empty
  [] p = "c_cs" ->
       LET j    == S.ck[t]
           gone == {y \in S.ready[j] : S.tforce[t] \/ S.cstat[y] # "up"}
           left == S.ready[j] \ gone
           S1   == [S EXCEPT !.ready[j] = left, !.cstat = [y \in Conns |-> IF y \in gone THEN "dn" ELSE @[y]],
                             !.pc[t] = "c_loop", !.ck[t] = 0] IN
       IF S.waiters[j] = 0 /\ left = {} /\ S.busy[j] = {}
       THEN {[S1 EXCEPT !.present[j] = FALSE, !.lock[j] = EmptyLock]}
       ELSE {[S1 EXCEPT !.lock[j] = Released(@)]}
  \* release() returns
  [] p = "r_ret" ->
       {[Dead(S, t) EXCEPT !.pc[t] = IF IsClient(t) THEN "idle" ELSE "done"]}

\* run the block to its end: until the task parks, waits for the environment, or is over
RECURSIVE RunAll(_, _)
RunAll(SS, t) ==
  IF \A S \in SS : S.pc[t] \notin Running THEN SS
  ELSE RunAll(UNION {IF S.pc[t] \in Running THEN Micro(S, t) ELSE {S} : S \in SS}, t)

-----------------------------------------------------------------------------
InitM ==
  /\ present = [k \in Keys |-> FALSE] /\ ready = [k \in Keys |-> {}] /\ busy = [k \in Keys |-> {}]
  /\ waiters = [k \in Keys |-> 0] /\ cstat = [x \in Conns |-> "dn"]
  /\ lock = [l \in Locks |-> EmptyLock] /\ cond = [k \in Keys |-> <<>>]
  /\ pc = [t \in Threads |-> IF IsClient(t) THEN "idle" ELSE "unused"]
  /\ tk = [t \in Threads |-> 0] /\ tc = [t \in Threads |-> 0] /\ ck = [t \in Threads |-> 0]
  /\ tq = [t \in Threads |-> {}] /\ tforce = [t \in Threads |-> FALSE]
  /\ cflag = [t \in Threads |-> FALSE] /\ cwc = [t \in Threads |-> FALSE] /\ why = [t \in Threads |-> ""]
  /\ join = [c \in Clients |-> 0]
  /\ rtasks = {} /\ uses = [c \in Clients |-> 0]
  /\ ncancel = 0 /\ nkill = 0

\* observation variables are functions of the rest of the state
Holders == [x \in Conns |-> {c \in Clients : pc[c] = "use" /\ tc[c] = x}]
InAcq   == [c \in Clients |-> IF pc[c] \in AcqPcs THEN tk[c] ELSE 0]
InRel   == [c \in Clients |-> pc[c] \in RelPcs]
RPend   == {r \in RTs : pc[r] \notin Terminal \cup NotYet}
Owed    == {tc[t] : t \in {u \in Threads : (IsClient(u) /\ pc[u] \in RelPcs) \/ (~IsClient(u) /\ pc[u] \notin Terminal \cup NotYet)}}

\* a task that the loop can run now
Wakeable(t) ==
  \/ pc[t] \in Running
  \/ pc[t] \in LockWait /\ StatIn(lock[LockOf(Snap, t)].q, t) \in {"w", "x"}
  \/ pc[t] = "h_cw" /\ StatIn(cond[tk[t]], t) \in {"n", "x"}
  \/ pc[t] = "a_join" /\ (cflag[t] \/ pc[join[t]] \in Terminal)
Quiet == \A t \in Threads : ~Wakeable(t)

Init == InitM /\ holders = Holders /\ inAcq = InAcq /\ inRel = InRel /\ rpend = RPend /\ owed = Owed /\ quiet = Quiet

\* every action re-derives the observation variables
Obs == holders' = Holders' /\ inAcq' = InAcq' /\ inRel' = InRel' /\ rpend' = RPend' /\ owed' = Owed' /\ quiet' = Quiet'

-----------------------------------------------------------------------------
(* The event loop runs one block of one task                                *)
RunTask(t) ==
  /\ Wakeable(t)
  /\ \E S2 \in RunAll({Resume(Snap, t)}, t) : Install(S2)
  /\ UNCHANGED bvars
  /\ Obs

\* named by where the task was suspended (for coverage)
AcquireRuns(t)        == pc[t] = "a_drain" /\ RunTask(t)    \* a client that just called acquire()
JoinerResumes(t)      == pc[t] = "a_join" /\ RunTask(t)     \* ... was awaiting a release task
LockWaiterResumes(t)  == pc[t] \in LockWait /\ RunTask(t)   \* ... was queued on a lock
CondWaiterResumes(t)  == pc[t] = "h_cw" /\ RunTask(t)       \* ... was parked in Condition.wait()
ReleaseRuns(t)        == pc[t] = "r_start" /\ RunTask(t)    \* a client that just called release()
ReleaseTaskRuns(t)    == pc[t] = "new" /\ RunTask(t)        \* a no_wait_release task starts
ReleaseTaskStillborn(t) == pc[t] = "xnew" /\ RunTask(t)     \* ... that was cancelled before it started

-----------------------------------------------------------------------------
(* Environment                                                              *)

\* a client calls pool.acquire(key k)
Start(c, k) ==
  /\ pc[c] = "idle" /\ uses[c] < Uses
  /\ pc' = [pc EXCEPT ![c] = "a_drain"] /\ tk' = [tk EXCEPT ![c] = k]
  /\ UNCHANGED <<pvars, svars, tc, ck, tq, tforce, cflag, cwc, why, join, rtasks, bvars>>
  /\ Obs

\* the client (re)connects the closed connection it holds; the connect may fail
Connect(c, ok) ==
  /\ pc[c] = "use" /\ cstat[tc[c]] # "up"
  /\ cstat' = [cstat EXCEPT ![tc[c]] = IF ok THEN "up" ELSE "dn"]
  /\ UNCHANGED <<present, ready, busy, waiters, svars, tvars, rtasks, bvars>>
  /\ Obs

\* the remote end closes a pooled connection
Kill(x) ==
  /\ nkill < MaxKill /\ cstat[x] = "up"
  /\ \E k \in Keys : x \in ready[k] \cup busy[k]
  /\ cstat' = [cstat EXCEPT ![x] = IF \E k \in Keys : x \in ready[k] THEN "ex" ELSE "dn"]
  /\ nkill' = nkill + 1
  /\ UNCHANGED <<present, ready, busy, waiters, svars, tvars, rtasks, uses, ncancel>>
  /\ Obs

\* a free release-task slot
FreeRT == {r \in RTs : pc[r] \in Terminal \cup NotYet /\ r \notin rtasks /\ \A c \in Clients : join[c] # r}

\* the client gives the connection back (closing it first if cl): awaited release or no_wait_release
Finish(c, mode, cl) ==
  /\ pc[c] = "use" /\ mode \in Modes
  /\ cstat' = IF cl THEN [cstat EXCEPT ![tc[c]] = "dn"] ELSE cstat
  /\ uses' = [uses EXCEPT ![c] = @ + 1]
  /\ IF mode = "a"
     THEN /\ pc' = [pc EXCEPT ![c] = "r_start"] /\ UNCHANGED <<tk, tc, rtasks>>
     ELSE /\ FreeRT # {}
          /\ LET r == Min(FreeRT) IN
             /\ pc' = [pc EXCEPT ![c] = "idle", ![r] = "new"]
             /\ tk' = [tk EXCEPT ![r] = tk[c], ![c] = 0] /\ tc' = [tc EXCEPT ![r] = tc[c], ![c] = 0]
             /\ rtasks' = rtasks \cup {r}
  /\ UNCHANGED <<present, ready, busy, waiters, svars, ck, tq, tforce, cflag, cwc, why, join, ncancel, nkill>>
  /\ Obs

\* Task.cancel() on a suspended task u
CancelParked(u) ==
  IF pc[u] \in LockWait
  THEN LET l == LockOf(Snap, u) IN
       IF StatIn(lock[l].q, u) = "p"
       THEN lock' = [lock EXCEPT ![l].q = SetStat(@, u, "x")] /\ UNCHANGED <<cond, cflag, pc>>
       ELSE cflag' = [cflag EXCEPT ![u] = TRUE] /\ UNCHANGED <<lock, cond, pc>>
  ELSE IF pc[u] = "h_cw"
  THEN IF StatIn(cond[tk[u]], u) = "p"
       THEN cond' = [cond EXCEPT ![tk[u]] = SetStat(@, u, "x")] /\ UNCHANGED <<lock, cflag, pc>>
       ELSE cflag' = [cflag EXCEPT ![u] = TRUE] /\ UNCHANGED <<lock, cond, pc>>
  ELSE IF pc[u] = "new"
  THEN pc' = [pc EXCEPT ![u] = "xnew"] /\ UNCHANGED <<lock, cond, cflag>>
  ELSE cflag' = [cflag EXCEPT ![u] = TRUE] /\ UNCHANGED <<lock, cond, pc>>

CancelPending(u) ==
  \/ cflag[u]
  \/ pc[u] \in LockWait /\ StatIn(lock[LockOf(Snap, u)].q, u) = "x"
  \/ pc[u] = "h_cw" /\ StatIn(cond[tk[u]], u) = "x"
  \/ pc[u] = "xnew"

\* the task of client c is cancelled while it is suspended inside acquire() or release()
Cancel(c) ==
  /\ ncancel < MaxCancel /\ pc[c] \in Parked
  /\ ncancel' = ncancel + 1
  /\ IF pc[c] = "a_join" /\ ~FixShield /\ pc[join[c]] \notin Terminal
     THEN IF CancelPending(join[c]) THEN UNCHANGED <<lock, cond, cflag, pc>>
          ELSE CancelParked(join[c])                            \* cancelling the awaiter cancels the awaited task
     ELSE IF CancelPending(c) THEN UNCHANGED <<lock, cond, cflag, pc>>   \* a second cancel() changes nothing
     ELSE CancelParked(c)
  /\ UNCHANGED <<pvars, tk, tc, ck, tq, tforce, cwc, why, join, rtasks, uses, nkill>>
  /\ Obs

-----------------------------------------------------------------------------
SysNext ==
  \E t \in Threads : \/ AcquireRuns(t) \/ JoinerResumes(t) \/ LockWaiterResumes(t) \/ CondWaiterResumes(t)
                     \/ ReleaseRuns(t) \/ ReleaseTaskRuns(t) \/ ReleaseTaskStillborn(t)
EnvNext ==
  \/ \E c \in Clients, k \in Keys : Start(c, k)
  \/ \E c \in Clients, ok \in BOOLEAN : Connect(c, ok)
  \/ \E x \in Conns : Kill(x)
  \/ \E c \in Clients, mode \in Modes, cl \in BOOLEAN : Finish(c, mode, cl)
  \/ \E c \in Clients : Cancel(c)

Next == SysNext \/ EnvNext

\* clients that hold a connection eventually give it back (needed for liveness only)
GiveBack(c) == \E mode \in Modes : Finish(c, mode, FALSE)

Spec == Init /\ [][Next]_vars /\ WF_vars(SysNext) /\ \A c \in Clients : WF_vars(GiveBack(c))

-----------------------------------------------------------------------------
(* Properties (besides those of ConnPoolProps)                              *)

\* no task ever dies of an internal error (KeyError in release ...)
NoError == \A t \in Threads : pc[t] # "errored"

\* "as soon as one is free", temporal form: a client inside acquire() leaves it (with a connection or cancelled)
Served == \A c \in Clients : (inAcq[c] # 0) ~> (inAcq[c] = 0)
\* every release task finishes
Drains == \A r \in RTs : (pc[r] = "new") ~> (pc[r] \in Terminal)

TypeOK ==
  /\ \A t \in Threads : pc[t] \in Parked \cup EnvWait \cup Terminal \cup NotYet \cup {"a_drain", "r_start", "new", "xnew"}
  /\ \A k \in Keys : waiters[k] \in 0..N
  /\ \A l \in Locks : Len(lock[l].q) <= N + R
  /\ \A c \in Clients : pc[c] = "use" => FreeRT # {}
=============================================================================
