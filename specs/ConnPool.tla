------------------------------ MODULE ConnPool ------------------------------
(***************************************************************************)
(* Implementation-shaped model of wpull/network/pool.py                    *)
(*   ConnectionPool.acquire / release / no_wait_release /                  *)
(*   _process_no_wait_releases / clean   and   HostPool.acquire / release / *)
(*   clean                                                                  *)
(* as they execute on asyncio (CPython 3.12.1).                             *)
(*                                                                         *)
(* Scheduling is cooperative: `cur` is the task that owns the CPU; it runs *)
(* small steps until it parks (awaits an unfinished future) or ends; only  *)
(* when cur = 0 the loop picks another runnable task (any one: a superset  *)
(* of the FIFO ready queue) or the environment acts.  Properties are       *)
(* stated over observation variables (ConnPoolProps).                      *)
(*                                                                         *)
(* asyncio.Lock (3.12): acquire() takes the fast path only when the lock   *)
(* is free and every queued waiter is cancelled; release() wakes the first *)
(* waiter if its future is not done; a waiter that is cancelled while the  *)
(* lock is free wakes the next one.  asyncio.Condition.wait(): release the *)
(* lock, park, and RE-ACQUIRE the lock - also when cancelled, swallowing   *)
(* further cancellations while it re-acquires - then raise.  notify(1)     *)
(* resolves the first waiter whose future is not done; a waiter cancelled  *)
(* after it was notified does not pass the notification on (3.12.1).       *)
(* Task.cancel(): a parked task gets CancelledError at its await; a task   *)
(* awaiting another task cancels THAT task.                                *)
(*                                                                         *)
(* Lock 0 is ConnectionPool._host_pools_lock, lock k is HostPool k._lock.  *)
(***************************************************************************)
EXTENDS ConnPoolProps

CONSTANTS MaxCount,   \* ConnectionPool max_count (force-clean threshold)
          Uses,       \* acquire/release rounds per client
          MaxCancel,  \* budget of task cancellations
          MaxKill,    \* budget of remote closes
          MaxFail,    \* budget of failed connects
          Modes,      \* subset of {"a","n"}: awaited release / no_wait_release
          FixCancel,  \* TRUE: repaired cancellation handling in HostPool.acquire / ConnectionPool.acquire
          FixShield   \* TRUE: _process_no_wait_releases shields the release task it awaits

R       == N * Uses            \* release tasks
Threads == 1..(N + R)
RTs     == (N + 1)..(N + R)
Locks   == 0..H

VARIABLES
  lock,     \* [Locks -> [held: BOOLEAN, q: Seq([t, s])]]   s: "p" pending, "w" woken, "x" cancelled
  cond,     \* [Keys -> Seq([t, s])]                        s: "p" pending, "n" notified, "x" cancelled
  pc, tk, tc, ck, tq, tforce,   \* per task: program counter, key, connection, key being cleaned, keys left, force
  cflag,    \* Task._must_cancel: CancelledError is thrown at the next resumption
  cwc,      \* Condition.wait(): local `cancelled`
  why,      \* kind of exception that ends the task ("" | "cancel" | "error")
  join,     \* [Clients -> release task awaited in _process_no_wait_releases, or 0]
  rtasks,   \* ConnectionPool._release_tasks
  nrt, uses, cur,
  ncancel, nkill, nfail

pvars  == <<present, ready, busy, waiters, cstat>>
svars  == <<lock, cond>>
tvars  == <<pc, tk, tc, ck, tq, tforce, cflag, cwc, why, join>>
gvars  == <<rtasks, nrt, uses, cur>>
bvars  == <<ncancel, nkill, nfail>>
ovars  == <<holders, inAcq, inRel, rpend, quiet>>
mvars  == <<pvars, svars, tvars, gvars, bvars>>
vars   == <<mvars, ovars>>

-----------------------------------------------------------------------------
(* program counters                                                         *)
LockWait  == {"a_l1w", "a_l2w", "h_acqw", "h_cwlw", "r_w", "c_lw", "c_pw"}
Parked    == LockWait \cup {"h_cw", "a_join"}
EnvWait   == {"idle", "use"}
Terminal  == {"done", "cancelled", "errored"}
NotYet    == {"unused"}
Running   == {"a_drain", "a_l1", "a_l1cs", "h_acq", "h_loop", "h_cwl", "h_got", "a_l2", "a_l2cs", "a_ret",
              "r_start", "r_cs", "c_l", "c_loop0", "c_loop", "c_cs", "r_ret",
              "x_cw", "x_hp", "x_clean", "x_fin", "x_rfin", "new", "xnew"}
AcqPcs    == {"a_drain", "a_join", "a_l1", "a_l1w", "a_l1cs", "h_acq", "h_acqw", "h_loop", "h_cw", "h_cwl",
              "h_cwlw", "h_got", "a_l2", "a_l2w", "a_l2cs", "a_ret", "x_cw", "x_hp", "x_fin"}
RelPcs    == {"r_start", "r_w", "r_cs", "c_l", "c_lw", "c_loop0", "c_loop", "c_pw", "c_cs", "r_ret", "x_clean", "x_rfin"}

IsClient(t) == t <= N

\* the lock a parked task is queued on
LockOf(t) == IF pc[t] \in {"a_l1w", "a_l2w", "c_lw"} THEN 0 ELSE IF pc[t] = "c_pw" THEN ck[t] ELSE tk[t]

-----------------------------------------------------------------------------
(* asyncio.Lock / asyncio.Condition as data                                 *)
NoLive(q)     == \A i \in DOMAIN q : q[i].s = "x"
CanFast(L)    == ~L.held /\ NoLive(L.q)
Enq(q, t)     == Append(q, [t |-> t, s |-> "p"])
WakeFirst(q)  == IF q # <<>> /\ q[1].s = "p" THEN [q EXCEPT ![1].s = "w"] ELSE q
Released(L)   == [held |-> FALSE, q |-> WakeFirst(L.q)]
Without(q, t) == SelectSeq(q, LAMBDA e : e.t # t)
Pos(q, t)     == CHOOSE i \in DOMAIN q : q[i].t = t
StatIn(q, t)  == q[Pos(q, t)].s
InQ(q, t)     == \E i \in DOMAIN q : q[i].t = t
SetStat(q, t, s) == [q EXCEPT ![Pos(q, t)].s = s]
\* a woken waiter takes the lock / a cancelled waiter leaves and, if the lock is free, wakes the next one
WokenTakes(L, t)  == [held |-> TRUE, q |-> Without(L.q, t)]
CancelLeaves(L, t) == LET q2 == Without(L.q, t) IN [held |-> L.held, q |-> IF L.held THEN q2 ELSE WakeFirst(q2)]
\* notify(1): the first waiter whose future is not done
NotifyOne(q) == IF \E i \in DOMAIN q : q[i].s = "p"
                THEN LET i == CHOOSE j \in DOMAIN q : q[j].s = "p" /\ \A j2 \in 1..(j - 1) : q[j2].s # "p"
                     IN [q EXCEPT ![i].s = "n"]
                ELSE q

Min(S) == CHOOSE x \in S : \A y \in S : x <= y
UsedConns == UNION {ready[k] \cup busy[k] : k \in Keys} \cup {tc[t] : t \in {u \in Threads : pc[u] \notin Terminal \cup NotYet \cup {"idle"}}}
Count == LET RECURSIVE Sum(_)
             Sum(S) == IF S = {} THEN 0 ELSE LET k == Min(S) IN Cardinality(ready[k]) + Cardinality(busy[k]) + Sum(S \ {k})
         IN Sum({k \in Keys : present[k]})

EmptyLock == [held |-> FALSE, q |-> <<>>]

-----------------------------------------------------------------------------
InitM ==
  /\ present = [k \in Keys |-> FALSE] /\ ready = [k \in Keys |-> {}] /\ busy = [k \in Keys |-> {}]
  /\ waiters = [k \in Keys |-> 0] /\ cstat = [x \in Conns |-> "dn"]
  /\ lock = [l \in Locks |-> EmptyLock] /\ cond = [k \in Keys |-> <<>>]
  /\ pc = [t \in Threads |-> IF IsClient(t) THEN "idle" ELSE "unused"]
  /\ tk = [t \in Threads |-> 0] /\ tc = [t \in Threads |-> 0] /\ ck = [t \in Threads |-> 0]
  /\ tq = [t \in Threads |-> {}] /\ tforce = [t \in Threads |-> FALSE]
  /\ cflag = [t \in Threads |-> FALSE] /\ cwc = [t \in Threads |-> FALSE] /\ why = [t \in Threads |-> ""]
  /\ join = [c \in Clients |-> 0]
  /\ rtasks = {} /\ nrt = 0 /\ uses = [c \in Clients |-> 0] /\ cur = 0
  /\ ncancel = 0 /\ nkill = 0 /\ nfail = 0

\* observation variables are functions of the rest of the state
Holders == [x \in Conns |-> {c \in Clients : pc[c] = "use" /\ tc[c] = x}]
InAcq   == [c \in Clients |-> IF pc[c] \in AcqPcs THEN tk[c] ELSE 0]
InRel   == [c \in Clients |-> pc[c] \in RelPcs]
RPend   == {r \in RTs : pc[r] \notin Terminal \cup NotYet}

\* a task that the loop can run now
Wakeable(t) ==
  \/ pc[t] \in Running
  \/ pc[t] \in LockWait /\ StatIn(lock[LockOf(t)].q, t) \in {"w", "x"}
  \/ pc[t] = "h_cw" /\ StatIn(cond[tk[t]], t) \in {"n", "x"}
  \/ pc[t] = "a_join" /\ (cflag[t] \/ pc[join[t]] \in Terminal)
Quiet == cur = 0 /\ \A t \in Threads : ~Wakeable(t)

Derived ==
  /\ holders = Holders /\ inAcq = InAcq /\ inRel = InRel /\ rpend = RPend /\ quiet = Quiet

Init == InitM /\ Derived

\* every action re-derives the observation variables
Obs == holders' = Holders' /\ inAcq' = InAcq' /\ inRel' = InRel' /\ rpend' = RPend' /\ quiet' = Quiet'

-----------------------------------------------------------------------------
(* helpers for steps of the running task                                    *)
Goto(t, p)    == pc' = [pc EXCEPT ![t] = p]
Keep          == cur' = cur
Yield         == cur' = 0

\* try to take lock l: fast path, or queue up and park
TryLock(t, l, okpc, waitpc) ==
  IF CanFast(lock[l])
  THEN /\ lock' = [lock EXCEPT ![l].held = TRUE] /\ Goto(t, okpc) /\ Keep
  ELSE /\ lock' = [lock EXCEPT ![l].q = Enq(@, t)] /\ Goto(t, waitpc) /\ Yield

Unlock(l) == lock' = [lock EXCEPT ![l] = Released(@)]

\* where a task continues once it owns the lock it queued for
AfterLock(t) ==
  CASE pc[t] = "a_l1w"  -> "a_l1cs"
    [] pc[t] = "a_l2w"  -> "a_l2cs"
    [] pc[t] = "h_acqw" -> "h_loop"
    [] pc[t] = "h_cwlw" -> IF cwc[t] THEN "x_cw" ELSE "h_loop"
    [] pc[t] = "r_w"    -> "r_cs"
    [] pc[t] = "c_lw"   -> "c_loop0"
    [] pc[t] = "c_pw"   -> "c_cs"
\* where CancelledError goes when it is raised at that await
AfterCancel(t) ==
  CASE pc[t] = "a_l1w"  -> "x_fin"
    [] pc[t] = "a_l2w"  -> "x_fin"
    [] pc[t] = "h_acqw" -> "x_hp"
    [] pc[t] = "h_cwlw" -> "h_cwl"     \* swallowed by Condition.wait(): try again
    [] pc[t] = "r_w"    -> "x_rfin"
    [] pc[t] = "c_lw"   -> "x_rfin"
    [] pc[t] = "c_pw"   -> "x_clean"

-----------------------------------------------------------------------------
(* the loop resumes a parked task                                           *)

\* Lock.acquire() continues after its future was resolved or cancelled
LockResume(t) ==
  /\ cur = 0 /\ pc[t] \in LockWait
  /\ LET l == LockOf(t)
         s == StatIn(lock[l].q, t) IN
     /\ s \in {"w", "x"}
     /\ IF s = "x" \/ cflag[t]
        THEN /\ lock' = [lock EXCEPT ![l] = CancelLeaves(@, t)]
             /\ Goto(t, AfterCancel(t))
             /\ cwc' = IF pc[t] = "h_cwlw" THEN [cwc EXCEPT ![t] = TRUE] ELSE cwc
             /\ why' = IF pc[t] = "h_cwlw" THEN why ELSE [why EXCEPT ![t] = "cancel"]
        ELSE /\ lock' = [lock EXCEPT ![l] = WokenTakes(@, t)]
             /\ Goto(t, AfterLock(t))
             /\ UNCHANGED <<cwc, why>>
  /\ cflag' = [cflag EXCEPT ![t] = FALSE]
  /\ cur' = t
  /\ UNCHANGED <<pvars, cond, tk, tc, ck, tq, tforce, join, rtasks, nrt, uses, bvars>>
  /\ Obs

\* Condition.wait() continues after notify() or cancellation: leave the waiter queue, go re-acquire the lock
CondResume(t) ==
  /\ cur = 0 /\ pc[t] = "h_cw"
  /\ LET k == tk[t]
         s == StatIn(cond[k], t) IN
     /\ s \in {"n", "x"}
     /\ cond' = [cond EXCEPT ![k] = Without(@, t)]
     /\ cwc' = [cwc EXCEPT ![t] = (s = "x" \/ cflag[t])]
  /\ cflag' = [cflag EXCEPT ![t] = FALSE]
  /\ Goto(t, "h_cwl") /\ cur' = t
  /\ UNCHANGED <<pvars, lock, tk, tc, ck, tq, tforce, why, join, rtasks, nrt, uses, bvars>>
  /\ Obs

\* `yield from release_task` continues
JoinResume(t) ==
  /\ cur = 0 /\ pc[t] = "a_join"
  /\ cflag[t] \/ pc[join[t]] \in Terminal
  /\ IF cflag[t] \/ pc[join[t]] = "cancelled"
     THEN Goto(t, "x_fin") /\ why' = [why EXCEPT ![t] = "cancel"]
     ELSE IF pc[join[t]] = "errored"
     THEN Goto(t, "x_fin") /\ why' = [why EXCEPT ![t] = "error"]
     ELSE Goto(t, "a_drain") /\ UNCHANGED why
  /\ cflag' = [cflag EXCEPT ![t] = FALSE]
  /\ join' = [join EXCEPT ![t] = 0]
  /\ cur' = t
  /\ UNCHANGED <<pvars, svars, tk, tc, ck, tq, tforce, cwc, rtasks, nrt, uses, bvars>>
  /\ Obs

\* a task that is in the ready queue with nothing to wait for (just started, or just told to go on)
Dispatch(t) ==
  /\ cur = 0 /\ pc[t] \in Running
  /\ cur' = t
  /\ UNCHANGED <<pvars, svars, tvars, rtasks, nrt, uses, bvars>>
  /\ Obs

-----------------------------------------------------------------------------
(* ConnectionPool.acquire                                                   *)

\* _process_no_wait_releases: pop a release task; await it unless it is finished
ADrain(t) ==
  /\ cur = t /\ pc[t] = "a_drain"
  /\ IF rtasks = {}
     THEN Goto(t, "a_l1") /\ Keep /\ UNCHANGED <<rtasks, join, why>>
     ELSE \E r \in rtasks :
            /\ rtasks' = rtasks \ {r}
            /\ IF pc[r] = "done" THEN UNCHANGED <<pc, join, why>> /\ Keep
               ELSE IF pc[r] = "cancelled" THEN Goto(t, "x_fin") /\ why' = [why EXCEPT ![t] = "cancel"] /\ Keep /\ UNCHANGED join
               ELSE IF pc[r] = "errored" THEN Goto(t, "x_fin") /\ why' = [why EXCEPT ![t] = "error"] /\ Keep /\ UNCHANGED join
               ELSE Goto(t, "a_join") /\ join' = [join EXCEPT ![t] = r] /\ Yield /\ UNCHANGED why
  /\ UNCHANGED <<pvars, svars, tk, tc, ck, tq, tforce, cflag, cwc, nrt, uses, bvars>>
  /\ Obs

\* with (yield from self._host_pools_lock):
AL1(t) ==
  /\ cur = t /\ pc[t] = "a_l1"
  /\ TryLock(t, 0, "a_l1cs", "a_l1w")
  /\ UNCHANGED <<pvars, cond, tk, tc, ck, tq, tforce, cflag, cwc, why, join, rtasks, nrt, uses, bvars>>
  /\ Obs

\*   create the host pool or count one more waiter; leave the with block
AL1cs(t) ==
  /\ cur = t /\ pc[t] = "a_l1cs"
  /\ LET k == tk[t] IN
     IF present[k]
     THEN waiters' = [waiters EXCEPT ![k] = @ + 1] /\ UNCHANGED present
     ELSE waiters' = [waiters EXCEPT ![k] = 1] /\ present' = [present EXCEPT ![k] = TRUE]
  /\ Unlock(0) /\ Goto(t, "h_acq") /\ Keep
  /\ UNCHANGED <<ready, busy, cstat, cond, tk, tc, ck, tq, tforce, cflag, cwc, why, join, rtasks, nrt, uses, bvars>>
  /\ Obs

\* HostPool.acquire: yield from self._condition.acquire()
HAcq(t) ==
  /\ cur = t /\ pc[t] = "h_acq"
  /\ TryLock(t, tk[t], "h_loop", "h_acqw")
  /\ UNCHANGED <<pvars, cond, tk, tc, ck, tq, tforce, cflag, cwc, why, join, rtasks, nrt, uses, bvars>>
  /\ Obs

\*   while True: pop an idle connection / make a new one / wait on the condition
HLoop(t) ==
  /\ cur = t /\ pc[t] = "h_loop"
  /\ LET k == tk[t] IN
     IF ready[k] # {}
     THEN \E x \in ready[k] :
            /\ ready' = [ready EXCEPT ![k] = @ \ {x}] /\ tc' = [tc EXCEPT ![t] = x]
            /\ Goto(t, "h_got") /\ Keep /\ UNCHANGED <<cstat, lock, cond>>
     ELSE IF Cardinality(busy[k]) < M
     THEN LET x == Min(Conns \ UsedConns) IN
            /\ tc' = [tc EXCEPT ![t] = x] /\ cstat' = [cstat EXCEPT ![x] = "dn"]
            /\ Goto(t, "h_got") /\ Keep /\ UNCHANGED <<ready, lock, cond>>
     ELSE /\ Unlock(k)                                     \* Condition.wait(): release, park
          /\ cond' = [cond EXCEPT ![k] = Enq(@, t)]
          /\ Goto(t, "h_cw") /\ Yield /\ UNCHANGED <<ready, tc, cstat>>
  /\ UNCHANGED <<present, busy, waiters, tk, ck, tq, tforce, cflag, cwc, why, join, rtasks, nrt, uses, bvars>>
  /\ Obs

\*   Condition.wait(), finally: await self.acquire()  (in a loop that swallows cancellations)
HCwl(t) ==
  /\ cur = t /\ pc[t] = "h_cwl"
  /\ TryLock(t, tk[t], IF cwc[t] THEN "x_cw" ELSE "h_loop", "h_cwlw")
  /\ UNCHANGED <<pvars, cond, tk, tc, ck, tq, tforce, cflag, cwc, why, join, rtasks, nrt, uses, bvars>>
  /\ Obs

\*   self.busy.add(connection); self._condition.release(); back in ConnectionPool.acquire
HGot(t) ==
  /\ cur = t /\ pc[t] = "h_got"
  /\ LET k == tk[t] IN
     /\ busy' = [busy EXCEPT ![k] = @ \cup {tc[t]}]
     /\ Unlock(k)
     /\ IF FixCancel
        THEN waiters' = [waiters EXCEPT ![k] = @ - 1] /\ Goto(t, "a_ret")     \* finally: waiters -= 1 (no lock)
        ELSE UNCHANGED waiters /\ Goto(t, "a_l2")
  /\ Keep
  /\ UNCHANGED <<present, ready, cstat, cond, tk, tc, ck, tq, tforce, cflag, cwc, why, join, rtasks, nrt, uses, bvars>>
  /\ Obs

\* with (yield from self._host_pools_lock): self._host_pool_waiters[key] -= 1     (unrepaired code only)
AL2(t) ==
  /\ cur = t /\ pc[t] = "a_l2"
  /\ TryLock(t, 0, "a_l2cs", "a_l2w")
  /\ UNCHANGED <<pvars, cond, tk, tc, ck, tq, tforce, cflag, cwc, why, join, rtasks, nrt, uses, bvars>>
  /\ Obs

AL2cs(t) ==
  /\ cur = t /\ pc[t] = "a_l2cs"
  /\ waiters' = [waiters EXCEPT ![tk[t]] = @ - 1]
  /\ Unlock(0) /\ Goto(t, "a_ret") /\ Keep
  /\ UNCHANGED <<present, ready, busy, cstat, cond, tk, tc, ck, tq, tforce, cflag, cwc, why, join, rtasks, nrt, uses, bvars>>
  /\ Obs

\* return connection: the client holds it from now on and waits for the environment
ARet(t) ==
  /\ cur = t /\ pc[t] = "a_ret"
  /\ Goto(t, "use") /\ Yield
  /\ UNCHANGED <<pvars, svars, tk, tc, ck, tq, tforce, cflag, cwc, why, join, rtasks, nrt, uses, bvars>>
  /\ Obs

-----------------------------------------------------------------------------
(* exceptions leaving acquire                                               *)

\* CancelledError leaves Condition.wait() - the lock has been re-acquired
XCw(t) ==
  /\ cur = t /\ pc[t] = "x_cw"
  /\ LET k == tk[t] IN
     IF FixCancel
     THEN /\ cond' = [cond EXCEPT ![k] = NotifyOne(@)]     \* pass a possibly consumed notification on
          /\ Unlock(k)                                     \* finally: self._condition.release()
     ELSE UNCHANGED <<lock, cond>>                         \* nobody releases the lock
  /\ Goto(t, "x_hp") /\ Keep
  /\ why' = [why EXCEPT ![t] = "cancel"] /\ cwc' = [cwc EXCEPT ![t] = FALSE]
  /\ UNCHANGED <<pvars, tk, tc, ck, tq, tforce, cflag, join, rtasks, nrt, uses, bvars>>
  /\ Obs

\* the exception leaves HostPool.acquire and passes through ConnectionPool.acquire
\* (repaired code: the waiter is un-counted, and a pool it leaves behind empty and unwaited is dropped)
XHp(t) ==
  /\ cur = t /\ pc[t] = "x_hp"
  /\ LET k == tk[t] IN
     IF FixCancel
     THEN /\ waiters' = [waiters EXCEPT ![k] = @ - 1]
          /\ IF waiters[k] = 1 /\ ready[k] = {} /\ busy[k] = {} /\ ~lock[0].held
             THEN present' = [present EXCEPT ![k] = FALSE] /\ lock' = [lock EXCEPT ![k] = EmptyLock]
             ELSE UNCHANGED <<present, lock>>
     ELSE UNCHANGED <<waiters, present, lock>>
  /\ Goto(t, "x_fin") /\ Keep
  /\ UNCHANGED <<ready, busy, cstat, cond, tk, tc, ck, tq, tforce, cflag, cwc, why, join, rtasks, nrt, uses, bvars>>
  /\ Obs

\* the exception leaves clean(): the with block releases the pools lock
XClean(t) ==
  /\ cur = t /\ pc[t] = "x_clean"
  /\ Unlock(0) /\ Goto(t, "x_rfin") /\ Keep
  /\ UNCHANGED <<pvars, cond, tk, tc, ck, tq, tforce, cflag, cwc, why, join, rtasks, nrt, uses, bvars>>
  /\ Obs

\* the task ends with the exception
XFin(t) ==
  /\ cur = t /\ pc[t] \in {"x_fin", "x_rfin"}
  /\ Goto(t, IF why[t] = "error" THEN "errored" ELSE "cancelled") /\ Yield
  /\ UNCHANGED <<pvars, svars, tk, tc, ck, tq, tforce, cflag, cwc, why, join, rtasks, nrt, uses, bvars>>
  /\ Obs

-----------------------------------------------------------------------------
(* ConnectionPool.release (inline in a client, or as a no_wait_release task) *)

\* a release task that was cancelled before it ever ran
RtStillborn(t) ==
  /\ cur = t /\ pc[t] = "xnew"
  /\ Goto(t, "cancelled") /\ Yield
  /\ UNCHANGED <<pvars, svars, tk, tc, ck, tq, tforce, cflag, cwc, why, join, rtasks, nrt, uses, bvars>>
  /\ Obs

\* host_pool = self._host_pools[key]; HostPool.release: yield from self._condition.acquire()
RStart(t) ==
  /\ cur = t /\ pc[t] \in {"r_start", "new"}
  /\ IF ~present[tk[t]]
     THEN Goto(t, "x_rfin") /\ why' = [why EXCEPT ![t] = "error"] /\ Keep /\ UNCHANGED lock     \* KeyError
     ELSE TryLock(t, tk[t], "r_cs", "r_w") /\ UNCHANGED why
  /\ UNCHANGED <<pvars, cond, tk, tc, ck, tq, tforce, cflag, cwc, join, rtasks, nrt, uses, bvars>>
  /\ Obs

\*   busy.remove; ready.add; notify(); release;  force = self.count() > self._max_count
RCs(t) ==
  /\ cur = t /\ pc[t] = "r_cs"
  /\ LET k == tk[t]
         x == tc[t] IN
     IF x \notin busy[k]
     THEN /\ Goto(t, "x_rfin") /\ why' = [why EXCEPT ![t] = "error"]                             \* KeyError, lock kept
          /\ UNCHANGED <<ready, busy, lock, cond, tforce>>
     ELSE /\ busy' = [busy EXCEPT ![k] = @ \ {x}] /\ ready' = [ready EXCEPT ![k] = @ \cup {x}]
          /\ cond' = [cond EXCEPT ![k] = NotifyOne(@)]
          /\ Unlock(k)
          /\ tforce' = [tforce EXCEPT ![t] = (Count > MaxCount)]
          /\ Goto(t, "c_l") /\ UNCHANGED why
  /\ Keep
  /\ UNCHANGED <<present, waiters, cstat, tk, tc, ck, tq, cflag, cwc, join, rtasks, nrt, uses, bvars>>
  /\ Obs

\* ConnectionPool.clean: with (yield from self._host_pools_lock):
CL(t) ==
  /\ cur = t /\ pc[t] = "c_l"
  /\ TryLock(t, 0, "c_loop0", "c_lw")
  /\ UNCHANGED <<pvars, cond, tk, tc, ck, tq, tforce, cflag, cwc, why, join, rtasks, nrt, uses, bvars>>
  /\ Obs

\*   for key, pool in tuple(self._host_pools.items()):
CLoop0(t) ==
  /\ cur = t /\ pc[t] = "c_loop0"
  /\ tq' = [tq EXCEPT ![t] = {k \in Keys : present[k]}]
  /\ Goto(t, "c_loop") /\ Keep
  /\ UNCHANGED <<pvars, svars, tk, tc, ck, tforce, cflag, cwc, why, join, rtasks, nrt, uses, bvars>>
  /\ Obs

\*     yield from pool.clean(force):  with (yield from self._lock):
CLoop(t) ==
  /\ cur = t /\ pc[t] = "c_loop"
  /\ IF tq[t] = {}
     THEN Unlock(0) /\ Goto(t, "r_ret") /\ Keep /\ UNCHANGED <<tq, ck>>
     ELSE \E k \in tq[t] :
            /\ tq' = [tq EXCEPT ![t] = @ \ {k}] /\ ck' = [ck EXCEPT ![t] = k]
            /\ TryLock(t, k, "c_cs", "c_pw")
  /\ UNCHANGED <<pvars, cond, tk, tc, tforce, cflag, cwc, why, join, rtasks, nrt, uses, bvars>>
  /\ Obs

\*       close and drop closed (or, forced, all) idle connections; drop the pool if nobody waits and it is empty
CCs(t) ==
  /\ cur = t /\ pc[t] = "c_cs"
  /\ LET k    == ck[t]
         gone == {x \in ready[k] : tforce[t] \/ cstat[x] # "up"}
         left == ready[k] \ gone IN
     /\ ready' = [ready EXCEPT ![k] = left]
     /\ cstat' = [x \in Conns |-> IF x \in gone THEN "dn" ELSE cstat[x]]
     /\ IF waiters[k] = 0 /\ left = {} /\ busy[k] = {}
        THEN present' = [present EXCEPT ![k] = FALSE] /\ lock' = [lock EXCEPT ![k] = EmptyLock]
        ELSE UNCHANGED present /\ Unlock(k)
  /\ Goto(t, "c_loop") /\ Keep
  /\ UNCHANGED <<busy, waiters, cond, tk, tc, ck, tq, tforce, cflag, cwc, why, join, rtasks, nrt, uses, bvars>>
  /\ Obs

\* release() returns
RRet(t) ==
  /\ cur = t /\ pc[t] = "r_ret"
  /\ Goto(t, IF IsClient(t) THEN "idle" ELSE "done") /\ Yield
  /\ UNCHANGED <<pvars, svars, tk, tc, ck, tq, tforce, cflag, cwc, why, join, rtasks, nrt, uses, bvars>>
  /\ Obs

-----------------------------------------------------------------------------
(* Environment                                                              *)

\* a client calls pool.acquire(key k)
Start(c, k) ==
  /\ cur = 0 /\ pc[c] = "idle" /\ uses[c] < Uses
  /\ Goto(c, "a_drain") /\ tk' = [tk EXCEPT ![c] = k] /\ tc' = [tc EXCEPT ![c] = 0]
  /\ UNCHANGED <<pvars, svars, ck, tq, tforce, cflag, cwc, why, join, gvars, bvars>>
  /\ Obs

\* the client (re)connects the closed connection it holds; the connect may fail
Connect(c, ok) ==
  /\ cur = 0 /\ pc[c] = "use" /\ cstat[tc[c]] # "up"
  /\ IF ok THEN cstat' = [cstat EXCEPT ![tc[c]] = "up"] /\ UNCHANGED nfail
           ELSE nfail < MaxFail /\ nfail' = nfail + 1 /\ cstat' = [cstat EXCEPT ![tc[c]] = "dn"]
  /\ UNCHANGED <<present, ready, busy, waiters, svars, tvars, gvars, ncancel, nkill>>
  /\ Obs

\* the remote end closes a pooled connection
Kill(x) ==
  /\ cur = 0 /\ nkill < MaxKill /\ cstat[x] = "up"
  /\ \E k \in Keys : x \in ready[k] \cup busy[k]
  /\ cstat' = [cstat EXCEPT ![x] = IF \E k \in Keys : x \in ready[k] THEN "ex" ELSE "dn"]
  /\ nkill' = nkill + 1
  /\ UNCHANGED <<present, ready, busy, waiters, svars, tvars, gvars, ncancel, nfail>>
  /\ Obs

\* the client gives the connection back (closing it first if cl): awaited release or no_wait_release
Finish(c, mode, cl) ==
  /\ cur = 0 /\ pc[c] = "use" /\ mode \in Modes
  /\ cstat' = IF cl THEN [cstat EXCEPT ![tc[c]] = "dn"] ELSE cstat
  /\ uses' = [uses EXCEPT ![c] = @ + 1]
  /\ IF mode = "a"
     THEN /\ Goto(c, "r_start") /\ UNCHANGED <<tk, tc, rtasks, nrt>>
     ELSE LET r == N + nrt + 1 IN
          /\ pc' = [pc EXCEPT ![c] = "idle", ![r] = "new"]
          /\ tk' = [tk EXCEPT ![r] = tk[c]] /\ tc' = [tc EXCEPT ![r] = tc[c], ![c] = 0]
          /\ rtasks' = rtasks \cup {r} /\ nrt' = nrt + 1
  /\ UNCHANGED <<present, ready, busy, waiters, svars, ck, tq, tforce, cflag, cwc, why, join, cur, bvars>>
  /\ Obs

\* Task.cancel() on a parked task u
CancelParked(u) ==
  IF pc[u] \in LockWait
  THEN LET l == LockOf(u) IN
       IF StatIn(lock[l].q, u) = "p"
       THEN lock' = [lock EXCEPT ![l].q = SetStat(@, u, "x")] /\ UNCHANGED <<cond, cflag, pc>>
       ELSE cflag' = [cflag EXCEPT ![u] = TRUE] /\ UNCHANGED <<lock, cond, pc>>
  ELSE IF pc[u] = "h_cw"
  THEN IF StatIn(cond[tk[u]], u) = "p"
       THEN cond' = [cond EXCEPT ![tk[u]] = SetStat(@, u, "x")] /\ UNCHANGED <<lock, cflag, pc>>
       ELSE cflag' = [cflag EXCEPT ![u] = TRUE] /\ UNCHANGED <<lock, cond, pc>>
  ELSE IF pc[u] = "new"
  THEN pc' = [pc EXCEPT ![u] = "xnew"] /\ UNCHANGED <<lock, cond, cflag>>
  ELSE cflag' = [cflag EXCEPT ![u] = TRUE] /\ UNCHANGED <<lock, cond, pc>>

CancelPending(u) ==
  \/ cflag[u]
  \/ pc[u] \in LockWait /\ StatIn(lock[LockOf(u)].q, u) = "x"
  \/ pc[u] = "h_cw" /\ StatIn(cond[tk[u]], u) = "x"
  \/ pc[u] = "xnew"

\* the task of client c is cancelled while it is suspended inside acquire() or release()
Cancel(c) ==
  /\ cur = 0 /\ ncancel < MaxCancel /\ pc[c] \in Parked /\ ~CancelPending(c)
  /\ ncancel' = ncancel + 1
  /\ IF pc[c] = "a_join" /\ ~FixShield /\ pc[join[c]] \notin Terminal
     THEN ~CancelPending(join[c]) /\ CancelParked(join[c])      \* cancelling the awaiter cancels the awaited task
     ELSE CancelParked(c)
  /\ UNCHANGED <<pvars, tk, tc, ck, tq, tforce, cwc, why, join, gvars, nkill, nfail>>
  /\ Obs

-----------------------------------------------------------------------------
Resume(t) == LockResume(t) \/ CondResume(t) \/ JoinResume(t) \/ Dispatch(t)
Step(t) ==
  \/ ADrain(t) \/ AL1(t) \/ AL1cs(t) \/ HAcq(t) \/ HLoop(t) \/ HCwl(t) \/ HGot(t) \/ AL2(t) \/ AL2cs(t) \/ ARet(t)
  \/ XCw(t) \/ XHp(t) \/ XClean(t) \/ XFin(t)
  \/ RtStillborn(t) \/ RStart(t) \/ RCs(t) \/ CL(t) \/ CLoop0(t) \/ CLoop(t) \/ CCs(t) \/ RRet(t)

SysNextM == \E t \in Threads : Resume(t) \/ Step(t)
EnvNextM ==
  \/ \E c \in Clients, k \in Keys : Start(c, k)
  \/ \E c \in Clients, ok \in BOOLEAN : Connect(c, ok)
  \/ \E x \in Conns : Kill(x)
  \/ \E c \in Clients, mode \in Modes, cl \in BOOLEAN : Finish(c, mode, cl)
  \/ \E c \in Clients : Cancel(c)


SysNext == SysNextM
EnvNext == EnvNextM
Next == SysNext \/ EnvNext

\* clients that hold a connection eventually give it back (needed for liveness only)
GiveBack(c) == \E mode \in Modes : Finish(c, mode, FALSE)

Spec == Init /\ [][Next]_vars /\ WF_vars(SysNext) /\ \A c \in Clients : WF_vars(GiveBack(c))

-----------------------------------------------------------------------------
(* Properties                                                               *)

\* no task ever dies of an internal error (KeyError in release ...)
NoError == \A t \in Threads : pc[t] # "errored"

\* "as soon as one is free", temporal form: a client inside acquire() leaves it (with a connection or cancelled)
Served == \A c \in Clients : (inAcq[c] # 0) ~> (inAcq[c] = 0)
\* every release task finishes
Drains == \A r \in RTs : (pc[r] = "new") ~> (pc[r] \in Terminal)

TypeOK ==
  /\ \A t \in Threads : pc[t] \in Parked \cup EnvWait \cup Terminal \cup NotYet \cup Running
  /\ \A k \in Keys : waiters[k] \in 0..N
  /\ cur \in 0..(N + R)
  /\ \A l \in Locks : Len(lock[l].q) <= N + R
  /\ cur # 0 => pc[cur] \in Running
=============================================================================
