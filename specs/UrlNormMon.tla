---------------------------- MODULE UrlNormMon ----------------------------
(***************************************************************************)
(* Observation monitor for C10 and C11.  Every trace is one input that was *)
(* run through the REAL wpull.url code:                                    *)
(*   ev = << member >>          the input is the base of its family        *)
(*   ev = << ref, member >>     the input is a Variant; ref carries the    *)
(*                              outcome of the family's base               *)
(* The property clauses of UrlNorm.tla are evaluated on the real outputs;  *)
(* the set of failing clauses is recorded as a bit mask.  Nothing here     *)
(* refers to the transcription Norm: this decides VIOLATION.               *)
(***************************************************************************)
EXTENDS UrlNorm, Json, IOUtils, TLCExt

CONSTANT Prop      \* "C10" | "C11": which property's clauses are evaluated

Batch == JsonDeserialize(IOEnv.TRACE_FILE)
NT    == Len(Batch)

VARIABLES tid, l, cur, base
mvars == <<tid, l, cur, base>>

Ev == Batch[tid].ev
None == [ref |-> TRUE, oc |-> "none"]

MInit == tid \in 1..NT /\ l = 1 /\ cur = None /\ base = None
MNext == /\ l <= Len(Ev) /\ l' = l + 1 /\ UNCHANGED tid
         /\ cur' = Ev[l]
         /\ base' = IF l = 1 THEN Ev[1] ELSE base
MSpec == MInit /\ [][MNext]_mvars

-----------------------------------------------------------------------------
NetValue(e) == e.oc = "value" /\ e.uoc = "value" /\ e.net

\* ---- C10 on the real output
C10IsAscii   == NetValue(cur) => IsAscii(cur.url)
C10NoWsC0    == NetValue(cur) => NoWsC0(cur.url)
C10Lower     == NetValue(cur) => LowerSchemeHost(cur.url)
C10Port      == NetValue(cur) => DefaultPortOmitted(cur.url)
C10Segments  == NetValue(cur) => NoDotOrEmptySegments(cur.url)
C10Escapes   == NetValue(cur) => EscapesUpper(cur.url)
C10Idempotent == NetValue(cur) => (cur.oc2 = "value" /\ cur.url2 = cur.url)
\* ... also when the second pass does not know the encoding of the document the URL came from
C10IdempotentAnyEnc == NetValue(cur) => (cur.oc3 = "value" /\ cur.url3 = cur.url)
C10RoundTrip == NetValue(cur) => /\ cur.oc2 = "value"
                                 /\ cur.sch2 = cur.sch /\ cur.hn2 = cur.hn /\ cur.port2 = cur.port
                                 /\ cur.path2 = cur.path /\ cur.query2 = cur.query
AgreeObs(b, c) == IF NetValue(b) \/ NetValue(c) THEN NetValue(b) /\ NetValue(c) /\ b.url = c.url
                  ELSE (b.oc = "value") = (c.oc = "value")
C10Variants  == AgreeObs(base, cur)

\* ---- C11 on the observed outcomes
C11Parse     == cur.oc \in {"value", "valueerror", "hang"}
C11Accessors == cur.oc = "value" => (cur.acc \in {"ok", "hang"} /\ cur.uoc \in {"value", "hang"})
C11Log       == cur.log \in {"ok", "hang", "none"}       \* "none": not called (parse itself hung)
C11Join      == cur.join \in {"ok", "valueerror", "hang", "none"}
C11Terminates == "hang" \notin {cur.oc, cur.acc, cur.uoc, cur.log, cur.join}

B(p, n) == IF p THEN 0 ELSE n
BadMask ==
  IF cur.ref THEN 0
  ELSE IF Prop = "C10"
  THEN B(C10IsAscii, 1) + B(C10NoWsC0, 2) + B(C10Lower, 4) + B(C10Port, 8) + B(C10Segments, 16) + B(C10Escapes, 32)
       + B(C10Idempotent, 64) + B(C10RoundTrip, 128) + B(C10Variants, 256) + B(C10IdempotentAnyEnc, 512)
  ELSE B(C11Parse, 1) + B(C11Accessors, 2) + B(C11Log, 4) + B(C11Join, 8) + B(C11Terminates, 16)

ASSUME \A i \in 1..(2 * NT) : TLCSet(i, 0)

Record ==
  /\ IF TLCGet(tid) < l THEN TLCSet(tid, l) ELSE TRUE
  /\ IF BadMask # 0 /\ TLCGet(NT + tid) = 0 THEN TLCSet(NT + tid, BadMask * 100000 + l) ELSE TRUE

Post == PrintT(<<"VERDICTS_BEGIN",
                 [i \in 1..NT |-> <<TLCGet(i) - 1, TLCGet(NT + i) \div 100000, TLCGet(NT + i) % 100000>>],
                 "VERDICTS_END">>)
=============================================================================
