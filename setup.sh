#!/bin/sh
# Offline setup: check the toolchain, parse every specification, self-test the compat layer.
set -e
HERE="$(cd "$(dirname "$0")" && pwd)"
cd "$HERE"
java -version 2>&1 | head -1
test -f /opt/veriftools/tla/tla2tools.jar
mkdir -p evidence replays
fail=0
for f in specs/*.tla; do
  out=$(cd specs && java -cp /opt/veriftools/tla/tla2tools.jar:/opt/veriftools/tla/CommunityModules-deps.jar tla2sany.SANY "$(basename "$f")" 2>&1) || true
  if echo "$out" | grep -q "Semantic errors\|Parse Error\|Fatal errors\|Could not"; then
    echo "SANY FAILED: $f"; echo "$out" | tail -20; fail=1
  fi
done
[ "$fail" = 0 ] || exit 1
echo "specs parse: ok ($(ls specs/*.tla | wc -l) modules)"
PYTHONHASHSEED=0 PYTHONPATH="$HERE:/repo" /venv/bin/python harness/selfcheck.py
echo "setup ok"
